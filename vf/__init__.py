"""Verification framework for dassh-dev/dassh (property-based testing / fuzzing)."""

"""Express an SI case spec in another unit system (the exact inverse of the conversions DASSH documents)."""
import copy

LENGTH = {"m": 1.0, "cm": 0.01, "mm": 0.001, "in": 0.0254, "ft": 0.3048}        # metres per unit
LENGTH_ALIASES = {"m": ["m", "meter", "Meters"], "cm": ["cm", "centimeter", "CENTIMETERS"], "mm": ["mm", "millimeters"],
                  "in": ["in", "inch", "Inches"], "ft": ["ft", "foot", "feet"]}
TEMP = ["kelvin", "celsius", "fahrenheit"]
TEMP_ALIASES = {"kelvin": ["K", "kelvin", "degK"], "celsius": ["C", "celsius", "degc"], "fahrenheit": ["F", "degF", "fahrenheit"]}
MASS = {"kg": 1.0, "lb": 0.453592}          # DASSH's pound (utils._pounds_to_kilograms)
TIME = {"s": 1.0, "min": 60.0, "hr": 3600.0}
MFR_SPELLINGS = {("kg", "s"): ["kg/s", "kg/sec", "kgs/second"], ("kg", "min"): ["kg/min", "kg/minute"], ("kg", "hr"): ["kg/hr", "kg/h"],
                 ("lb", "s"): ["lb/s", "lbs/sec"], ("lb", "min"): ["lb/min", "pounds/min"], ("lb", "hr"): ["lb/hr", "lb/hour"]}

LEN_KEYS_ASM = ["pin_pitch", "pin_diameter", "clad_thickness", "wire_pitch", "wire_diameter"]
LEN_KEYS_REGION = ["z_lo", "z_hi", "hydraulic_diameter", "epsilon"]


def t_from_k(T, unit):
    if unit == "kelvin":
        return T
    if unit == "celsius":
        return T - 273.15
    return (T - 273.15) * 9.0 / 5.0 + 32.0


def dt_from_k(dT, unit):
    return dT * 9.0 / 5.0 if unit == "fahrenheit" else dT


def convert(spec, length="m", temperature="kelvin", mass="kg", time="s", spelling=0):
    """Returns a new spec expressing the same physical problem in the given units.  Power CSV files are not
    touched (their format is fixed: metres and W/m)."""
    s = copy.deepcopy(spec)
    f = 1.0 / LENGTH[length]

    def L(x):
        return x * f
    c = s["core"]
    for k in ("length", "assembly_pitch"):
        if c.get(k) is not None:
            c[k] = L(c[k])
    c["coolant_inlet_temp"] = t_from_k(c["coolant_inlet_temp"], temperature)
    for a in s["assemblies"].values():
        for k in LEN_KEYS_ASM:
            if k in a:
                a[k] = L(a[k])
        a["duct_ftf"] = [L(x) for x in a["duct_ftf"]]
        for r in (a.get("AxialRegion") or {}).values():
            for k in LEN_KEYS_REGION:
                if k in r:
                    r[k] = L(r[k])
        for m in ("FuelModel", "PinModel"):
            if m in a and "gap_thickness" in a[m]:
                a[m]["gap_thickness"] = L(a[m]["gap_thickness"])
        if a.get("SpacerGrid") and "axial_positions" in a["SpacerGrid"]:
            a["SpacerGrid"]["axial_positions"] = [L(x) for x in a["SpacerGrid"]["axial_positions"]]
    su = s.setdefault("setup", {})
    for k in ("axial_mesh_size", "conv_approx_dz_cutoff"):
        if su.get(k) is not None:
            su[k] = L(su[k])
    if su.get("axial_plane") is not None:
        su["axial_plane"] = [L(x) for x in su["axial_plane"]]
    if su.get("dump") and su["dump"].get("interval") is not None:
        su["dump"]["interval"] = L(su["dump"]["interval"])
    for t in (su.get("tables") or {}).values():
        if t.get("axial_positions") is not None:
            t["axial_positions"] = [L(x) for x in t["axial_positions"]]
    mf = MASS[mass] / TIME[time]          # kg/s per unit
    for row in s["assignment"]:
        kw = row[4]
        if "FLOWRATE" in kw:
            kw["FLOWRATE"] = kw["FLOWRATE"] / mf
        if "OUTLET_TEMP" in kw:
            kw["OUTLET_TEMP"] = t_from_k(kw["OUTLET_TEMP"], temperature)
        if "DELTA_TEMP" in kw:
            kw["DELTA_TEMP"] = dt_from_k(kw["DELTA_TEMP"], temperature)
    if s.get("orificing") and s["orificing"].get("bulk_coolant_temp") is not None:
        s["orificing"]["bulk_coolant_temp"] = t_from_k(s["orificing"]["bulk_coolant_temp"], temperature)
    la = LENGTH_ALIASES[length]
    ta = TEMP_ALIASES[temperature]
    ma = MFR_SPELLINGS[(mass, time)]
    su["units"] = {"length": la[spelling % len(la)], "temperature": ta[spelling % len(ta)],
                   "mass_flow_rate": ma[spelling % len(ma)]}
    return s

"""Generic runner: parts, shards, hypothesis driving, evidence, known findings, replay.

A property module (vf/props/Cxx.py) exposes
    ID, TITLE, RULE (str), ASSUMPTIONS (list of str)
    parts(tier) -> list of Part
A Part is either enumerated (cases = list of JSON specs) or generated (strategy = hypothesis
strategy producing JSON specs); `run(spec)` returns an Outcome.
"""
import copy
import hashlib
import json
import multiprocessing as mp
import os
import signal
import sys
import time
import traceback

from . import env

NSHARD = int(os.environ.get("VERIF_SHARDS", "16"))


class Part(object):
    def __init__(self, name, run, strategy=None, cases=None, examples=0, exhaustive=False,
                 shrink=True, timeout=45, note=""):
        self.name = name
        self.run = run
        self.strategy = strategy
        self.cases = cases
        self.examples = examples
        self.exhaustive = exhaustive
        self.shrink = shrink
        self.timeout = timeout
        self.note = note


class Outcome(object):
    """What one case showed.  violations: list of (signature, detail)."""

    def __init__(self):
        self.violations = []
        self.nontrivial = False
        self.classes = {}
        self.metrics = {}
        self.inconclusive = None
        self.checks = 0          # number of individual assertions evaluated
        self.sample = None

    def fail(self, sig, detail=""):
        self.violations.append((str(sig), str(detail)[:600]))

    def metric(self, k, v):
        try:
            v = float(v)
        except Exception:
            return
        if v != v:
            return
        if k not in self.metrics or v > self.metrics[k]:
            self.metrics[k] = v

    def check(self, ok, sig, detail=""):
        self.checks += 1
        if not ok:
            self.fail(sig, detail)
        return ok


class CaseTimeout(Exception):
    pass


def _alarm(signum, frame):
    raise CaseTimeout()


def spec_hash(spec):
    return hashlib.sha1(json.dumps(spec, sort_keys=True, default=str).encode()).hexdigest()[:16]


def abbreviate(obj, depth=0):
    """Readable short form of a spec for evidence samples."""
    if isinstance(obj, dict):
        out = {}
        for k, v in obj.items():
            if k in ("amp", "freq", "phase") and depth > 1:
                continue
            out[k] = abbreviate(v, depth + 1)
        return out
    if isinstance(obj, (list, tuple)):
        if len(obj) > 8:
            return [abbreviate(v, depth + 1) for v in obj[:4]] + ["...(%d items)" % len(obj)]
        return [abbreviate(v, depth + 1) for v in obj]
    if isinstance(obj, float):
        return float("%.6g" % obj)
    return obj


def safe_run(part, spec):
    """Run one case; never raises (except KeyboardInterrupt)."""
    from . import drive
    o = None
    t0 = time.time()
    if part.timeout:
        signal.signal(signal.SIGALRM, _alarm)
        signal.setitimer(signal.ITIMER_REAL, part.timeout)
    try:
        # (the run functions may fill in derived keys; the replay file must hold the generated spec)
        o = part.run(copy.deepcopy(spec))
    except CaseTimeout:
        o = Outcome()
        o.inconclusive = "timeout>%ss" % part.timeout
    except drive.Rejected as e:
        o = Outcome()
        o.inconclusive = "rejected:" + e.stage
        o.classes["rejected_msg"] = (e.messages[0][2] if e.messages else "?")[:60]
    except drive.Crashed as e:
        o = Outcome()
        o.inconclusive = "crash:" + e.signature
        o.crash_detail = str(e)[:300]
    except KeyboardInterrupt:
        raise
    except BaseException as e:  # noqa
        tb = sys.exc_info()[2]
        where = env.innermost_dassh_frame(tb)
        o = Outcome()
        if where != "harness" and not isinstance(e, SystemExit):
            o.inconclusive = "crash:%s@%s" % (type(e).__name__, where)
            o.crash_detail = traceback.format_exc()[-600:]
        elif isinstance(e, SystemExit):
            o.inconclusive = "rejected:unguarded"
        else:
            o.harness_error = traceback.format_exc()[-1500:]
    finally:
        if part.timeout:
            signal.setitimer(signal.ITIMER_REAL, 0)
    o.wall = time.time() - t0
    return o


def derive_seed(seed, *parts):
    h = hashlib.sha1(("%d|" % seed + "|".join(str(p) for p in parts)).encode()).hexdigest()
    return int(h[:12], 16)


class Acc(object):
    """Accumulated statistics of one shard / the whole run (JSON-able)."""

    def __init__(self):
        self.d = {"evaluations": 0, "nontrivial_hashes": [], "classes": {}, "metrics": {},
                  "inconclusive": {}, "violations": [], "harness_errors": [], "samples": [],
                  "checks": 0, "crash_details": {}, "per_part": {}, "inc_examples": {}}

    def add(self, part, spec, o, keep_samples=3):
        d = self.d
        d["evaluations"] += 1
        pp = d["per_part"].setdefault(part.name, {"evaluations": 0, "nontrivial": 0, "violations": 0,
                                                  "inconclusive": 0})
        pp["evaluations"] += 1
        d["checks"] += o.checks
        if getattr(o, "harness_error", None):
            d["harness_errors"].append({"part": part.name, "error": o.harness_error, "spec": spec})
            return
        if o.inconclusive:
            d["inconclusive"][o.inconclusive] = d["inconclusive"].get(o.inconclusive, 0) + 1
            pp["inconclusive"] += 1
            if o.inconclusive not in d["inc_examples"]:
                d["inc_examples"][o.inconclusive] = {"part": part.name, "spec": spec,
                                                     "classes": {k: str(v) for k, v in o.classes.items()}}
            if getattr(o, "crash_detail", None):
                d["crash_details"].setdefault(o.inconclusive, o.crash_detail)
        for k, v in o.classes.items():
            kk = "%s=%s" % (k, v)
            d["classes"][kk] = d["classes"].get(kk, 0) + 1
        for k, v in o.metrics.items():
            if k not in d["metrics"] or v > d["metrics"][k]:
                d["metrics"][k] = v
        if not o.inconclusive and len(d.setdefault("any_samples", [])) < 2:
            d["any_samples"].append({"part": part.name, "case": o.sample if o.sample is not None else abbreviate(spec),
                                     "classes": dict(o.classes), "nontrivial": bool(o.nontrivial)})
        if o.nontrivial and not o.inconclusive:
            h = spec_hash(spec)
            d["nontrivial_hashes"].append(h)
            pp["nontrivial"] += 1
            if len([s for s in d["samples"] if s["part"] == part.name]) < keep_samples:
                d["samples"].append({"part": part.name,
                                     "case": o.sample if o.sample is not None else abbreviate(spec),
                                     "classes": dict(o.classes),
                                     "metrics": {k: float("%.4g" % v) for k, v in o.metrics.items()}})
        for sig, detail in o.violations:
            pp["violations"] += 1
            d["violations"].append({"part": part.name, "signature": sig, "detail": detail,
                                    "spec": spec, "classes": dict(o.classes)})

    def merge(self, other):
        d, e = self.d, other
        d["evaluations"] += e["evaluations"]
        d["checks"] += e["checks"]
        d["nontrivial_hashes"] += e["nontrivial_hashes"]
        for k, v in e["classes"].items():
            d["classes"][k] = d["classes"].get(k, 0) + v
        for k, v in e["metrics"].items():
            if k not in d["metrics"] or v > d["metrics"][k]:
                d["metrics"][k] = v
        for k, v in e["inconclusive"].items():
            d["inconclusive"][k] = d["inconclusive"].get(k, 0) + v
        for k, v in e["crash_details"].items():
            d["crash_details"].setdefault(k, v)
        for k, v in e.get("inc_examples", {}).items():
            d["inc_examples"].setdefault(k, v)
        d["violations"] += e["violations"]
        d["harness_errors"] += e["harness_errors"]
        for s in e.get("any_samples", []):
            if len(d.setdefault("any_samples", [])) < 3:
                d["any_samples"].append(s)
        for s in e["samples"]:
            if len([x for x in d["samples"] if x["part"] == s["part"]]) < 2:
                d["samples"].append(s)
        for k, v in e["per_part"].items():
            pp = d["per_part"].setdefault(k, {"evaluations": 0, "nontrivial": 0, "violations": 0,
                                              "inconclusive": 0})
            for kk in pp:
                pp[kk] += v[kk]


def load_module(pid):
    import importlib
    return importlib.import_module("vf.props." + pid)


def _find_part(pid, tier, name):
    mod = load_module(pid)
    for p in mod.parts(tier):
        if p.name == name:
            return p
    raise KeyError(name)


def shard_worker(args):
    """Runs in a child process."""
    pid, tier, seed, pname, shard, nshard = args
    try:
        env.setup()
        part = _find_part(pid, tier, pname)
        acc = Acc()
        if part.cases is not None:
            for i, spec in enumerate(part.cases):
                if i % nshard != shard:
                    continue
                acc.add(part, spec, safe_run(part, spec))
        else:
            n = part.examples // nshard + (1 if shard < part.examples % nshard else 0)
            if n > 0:
                import hypothesis
                from hypothesis import HealthCheck, Phase, given, settings

                @hypothesis.seed(derive_seed(seed, pid, pname, shard))
                @settings(max_examples=n, database=None, deadline=None, phases=[Phase.generate],
                          suppress_health_check=list(HealthCheck), report_multiple_bugs=False,
                          derandomize=False)
                @given(part.strategy)
                def t(spec):
                    acc.add(part, spec, safe_run(part, spec))
                t()
        return acc.d
    except BaseException:  # noqa
        return {"fatal": traceback.format_exc()[-3000:], "part": pname, "shard": shard}


def shrink_worker(args):
    """Re-run one shard with Phase.shrink restricted to one signature; returns minimal spec."""
    pid, tier, seed, pname, shard, nshard, sig, budget = args
    try:
        env.setup()
        part = _find_part(pid, tier, pname)
        n = part.examples // nshard + (1 if shard < part.examples % nshard else 0)
        import hypothesis
        from hypothesis import HealthCheck, Phase, given, settings
        found = {}
        t_end = time.time() + budget

        @hypothesis.seed(derive_seed(seed, pid, pname, shard))
        @settings(max_examples=max(n, 1), database=None, deadline=None,
                  phases=[Phase.generate, Phase.shrink],
                  suppress_health_check=list(HealthCheck), report_multiple_bugs=False)
        @given(part.strategy)
        def t(spec):
            if time.time() > t_end and found:
                return
            o = safe_run(part, spec)
            for s, detail in o.violations:
                if s == sig:
                    found["spec"] = spec
                    found["detail"] = detail
                    raise AssertionError(sig)
        try:
            t()
        except AssertionError:
            pass
        except BaseException:  # noqa
            pass
        return found
    except BaseException:  # noqa
        return {}


# ----------------------------------------------------------------------------------------
def load_known():
    p = os.path.join(env.VERIF, "known_findings.json")
    if not os.path.exists(p):
        return []
    with open(p) as f:
        return json.load(f).get("findings", [])


def matches_known(pid, v, known):
    for k in known:
        if k.get("property") != pid or k.get("status", "open") != "open":
            continue
        if k.get("signature") != v["signature"]:
            continue
        when = k.get("when") or {}
        if all(str(v.get("classes", {}).get(a)) == str(b) for a, b in when.items()):
            return k
    return None


def corpus_cases(pid):
    d = os.path.join(env.VERIF, "replays", "corpus", pid)
    out = []
    if os.path.isdir(d):
        for fn in sorted(os.listdir(d)):
            if fn.endswith(".json"):
                with open(os.path.join(d, fn)) as f:
                    out.append((fn, json.load(f)))
    return out


def write_replay(pid, part, sig, spec, detail, seed, tag=""):
    d = os.environ.get("VERIF_REPLAY_DIR") or os.path.join(env.VERIF, "replays")
    os.makedirs(d, exist_ok=True)
    safe = "".join(c if c.isalnum() else "_" for c in sig)[:60]
    path = os.path.join(d, "%s-%s-%s%s.json" % (pid, safe, seed, tag))
    with open(path, "w") as f:
        json.dump({"property": pid, "part": part, "signature": sig, "detail": detail, "spec": spec},
                  f, indent=1, default=str)
    return path


def run_check(pid, tier, seed, only_part=None):
    t0 = time.time()
    env.setup()
    mod = load_module(pid)
    parts = mod.parts(tier)
    if only_part:
        parts = [p for p in parts if p.name == only_part]
    known = load_known()
    total = Acc()
    fatal = []

    # 1. regression corpus (saved failing inputs; bypasses hypothesis)
    corpus = corpus_cases(pid)
    pmap = {p.name: p for p in mod.parts("thorough")}
    pmap.update({p.name: p for p in parts})
    for fn, rec in corpus:
        part = pmap.get(rec.get("part"))
        if part is None:
            continue
        o = safe_run(part, rec["spec"])
        o.classes["corpus"] = fn
        total.add(part, rec["spec"], o)

    # 2. generated / enumerated search, sharded
    tasks = []
    for p in parts:
        ns = NSHARD
        if p.cases is not None:
            ns = max(1, min(NSHARD, len(p.cases)))
        else:
            # hypothesis starts every run with its simplest examples: keep at least 4 examples per shard
            ns = max(1, min(NSHARD, p.examples // 4))
        for s in range(ns):
            tasks.append((pid, tier, seed, p.name, s, ns))
    ctx = mp.get_context("fork")
    nproc = min(NSHARD, max(1, len(tasks)))
    if tasks:
        with ctx.Pool(nproc, maxtasksperchild=1) as pool:
            for res in pool.imap_unordered(shard_worker, tasks):
                if "fatal" in res:
                    fatal.append(res)
                else:
                    total.merge(res)
    d = total.d

    # 3. classify violations
    new, knownhits = [], {}
    for v in d["violations"]:
        k = matches_known(pid, v, known)
        if k is not None:
            knownhits.setdefault(k["id"], [k, 0])
            knownhits[k["id"]][1] += 1
        else:
            new.append(v)
    # group new violations by signature, keep the smallest spec of each
    bysig = {}
    for v in new:
        cur = bysig.get(v["signature"])
        if cur is None or len(json.dumps(v["spec"], default=str)) < len(json.dumps(cur["spec"], default=str)):
            bysig[v["signature"]] = v
    replays = []
    for sig, v in sorted(bysig.items()):
        spec, detail = v["spec"], v["detail"]
        part = pmap.get(v["part"])
        if tier == "thorough" and part is not None and part.strategy is not None and part.shrink:
            # shrink inside hypothesis: rerun the shards (same seeds) restricted to this signature
            ns = max(1, min(NSHARD, part.examples // 4))
            st = [(pid, tier, seed, part.name, s, ns, sig, 240) for s in range(ns)]
            best = None
            with ctx.Pool(min(NSHARD, ns), maxtasksperchild=1) as pool:
                for f in pool.imap_unordered(shrink_worker, st):
                    if f.get("spec") is not None:
                        if best is None or len(json.dumps(f["spec"], default=str)) < len(json.dumps(best["spec"], default=str)):
                            best = f
            if best is not None:
                spec, detail = best["spec"], best["detail"]
        replays.append((sig, write_replay(pid, v["part"], sig, spec, detail, seed), detail))

    # 3b. keep one example per inconclusive reason for diagnosis (git-ignored)
    incd = os.path.join(os.environ.get("VERIF_REPLAY_DIR") or os.path.join(env.VERIF, "replays"), "inconclusive")
    os.makedirs(incd, exist_ok=True)
    for reason, ex in d["inc_examples"].items():
        safe = "".join(c if c.isalnum() else "_" for c in reason)[:60]
        with open(os.path.join(incd, "%s-%s.json" % (pid, safe)), "w") as f:
            json.dump({"property": pid, "part": ex["part"], "signature": reason, "spec": ex["spec"],
                       "classes": ex["classes"]}, f, indent=1, default=str)

    # 4. evidence
    distinct = len(set(d["nontrivial_hashes"]))
    exhaustive = bool(parts) and all(p.exhaustive for p in parts)
    ev = {
        "property_id": pid, "tier": tier, "seed": int(seed), "level": "exploration",
        "coverage": {
            "evaluations": d["evaluations"],
            "distinct_nontrivial": distinct,
            "rule": mod.RULE,
            "samples": (d["samples"][:8] or d.get("any_samples", [])[:3]),
            "exhaustive": exhaustive,
            "explanation": getattr(mod, "EXPLANATION", ""),
            "assertions_evaluated": d["checks"],
            "per_part": d["per_part"],
            "parts": {p.name: {"kind": "enumerated" if p.cases is not None else "hypothesis",
                               "budget": len(p.cases) if p.cases is not None else p.examples,
                               "exhaustive": p.exhaustive, "note": p.note} for p in parts},
            "class_histogram": dict(sorted(d["classes"].items())),
            "worst_metrics": d["metrics"],
            "inconclusive": d["inconclusive"],
            "known_findings_hit": {k: v[1] for k, v in knownhits.items()},
            "corpus_replayed": len(corpus),
            "new_violation_signatures": sorted(bysig),
        },
        "assumptions": list(getattr(mod, "ASSUMPTIONS", [])),
        "wall_s": round(time.time() - t0, 2),
        "violations": len(new),
    }
    evdir = os.environ.get("VERIF_EVIDENCE_DIR") or os.path.join(env.VERIF, "evidence")
    os.makedirs(evdir, exist_ok=True)
    evp = os.path.join(evdir, pid + ".json")
    with open(evp, "w") as f:
        json.dump(ev, f, indent=1, sort_keys=True, default=str)
    try:
        validate_evidence(evp)
        ev_ok = True
    except Exception as e:  # noqa
        print("HARNESS-ERROR: evidence file does not validate: %s" % str(e).splitlines()[0])
        ev_ok = False

    # 5. report
    print("%s tier=%s seed=%s cases=%d nontrivial=%d assertions=%d violations=%d known=%d inconclusive=%d wall=%.1fs"
          % (pid, tier, seed, d["evaluations"], distinct, d["checks"], len(new),
             sum(v[1] for v in knownhits.values()), sum(d["inconclusive"].values()), time.time() - t0))
    for k, n in sorted(d["inconclusive"].items()):
        print("  inconclusive %-60s %d" % (k, n))
    for k in known:
        if k.get("property") == pid and k.get("status", "open") == "open":
            n = knownhits.get(k["id"], [k, 0])[1]
            print("KNOWN-FINDING: property=%s %s %s (hit %d times in this run)" % (pid, k["id"], k.get("what", ""), n))
    if replays:
        # real violations are reported even if some other case tripped over the harness
        for sig, path, detail in replays:
            print("VIOLATION property=%s replay=%s" % (pid, path))
            print("  signature: %s\n  detail: %s" % (sig, detail))
        for h in d["harness_errors"][:3]:
            print("HARNESS-ERROR (in addition) part=%s\n%s" % (h["part"], h["error"]))
        return 1
    if fatal or d["harness_errors"]:
        for f in fatal:
            print("HARNESS-ERROR part=%s shard=%s\n%s" % (f.get("part"), f.get("shard"), f.get("fatal")))
        for h in d["harness_errors"][:3]:
            print("HARNESS-ERROR part=%s\n%s" % (h["part"], h["error"]))
            p = write_replay(pid, h["part"], "harness_error", h["spec"], h["error"], seed, "-harness")
            print("  spec saved to", p)
        return 2
    if not ev_ok:
        return 2
    if distinct < 2 or d["evaluations"] < 1:
        print("HARNESS-ERROR: fewer than 2 distinct non-trivial cases (%d)" % distinct)
        return 2
    return 0


def validate_evidence(path):
    try:
        import jsonschema
    except ImportError:
        return
    sp = "/root/.vp/EVIDENCE.schema.json"
    if not os.path.exists(sp):
        sp = os.path.join(env.VERIF, "tools", "EVIDENCE.schema.json")
    if not os.path.exists(sp):
        return
    with open(sp) as f:
        schema = json.load(f)
    with open(path) as f:
        jsonschema.validate(json.load(f), schema)


def replay(pid, path):
    env.setup()
    mod = load_module(pid)
    with open(path) as f:
        rec = json.load(f)
    pmap = {p.name: p for p in mod.parts("thorough")}
    pmap.update({p.name: p for p in mod.parts("quick")})
    part = pmap[rec["part"]]
    o = safe_run(part, rec["spec"])
    known = load_known()
    print("replay %s part=%s" % (path, part.name))
    if getattr(o, "harness_error", None):
        print("HARNESS-ERROR\n" + o.harness_error)
        return 2
    print("  inconclusive:", o.inconclusive)
    print("  classes:", o.classes)
    print("  metrics:", o.metrics)
    rc = 0
    for sig, detail in o.violations:
        v = {"signature": sig, "classes": o.classes}
        k = matches_known(pid, v, known)
        if k:
            print("KNOWN-FINDING: property=%s %s %s" % (pid, k["id"], k.get("what", "")))
        else:
            print("VIOLATION property=%s replay=%s" % (pid, path))
            print("  signature: %s\n  detail: %s" % (sig, detail))
            rc = 1
    if not o.violations:
        print("  no violation")
    return rc

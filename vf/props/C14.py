"""C14 - pressure drop is non-negative, additive and step-size independent."""
import copy
import math

import numpy as np
from hypothesis import strategies as st

from .. import drive, gen, geom
from ..runner import Outcome, Part

ID = "C14"
TITLE = "Pressure drop is non-negative, additive and step-size independent"
TECHNIQUE = "property-based testing (Hypothesis): generated constant-property assemblies with spacer grids placed on and between axial planes (dyadic, decimal, unit-converted positions), swept with several step sizes; closed-form oracle f L rho v^2/(2 De) + n K rho v^2/2 + rho g L with independently computed v, De and grid count; the same closed forms for every assembly of generated cores with several positions per type"
RULE = ("generated single assemblies (2-5 rings, 1-2 ducts, all friction correlations, gravity on/off, 0-2 unrodded "
        "regions, 0-5 spacer grids whose positions are drawn on exact planes of the coarse mesh, on planes of the "
        "refined mesh only, and at generic positions), each swept with 3 step sizes (s, s/2, 0.77 s).  Non-trivial: at "
        "least one grid lies exactly on a plane of one of the meshes, or >= 2 regions; distinct = spec hash")
ASSUMPTIONS = ["constant-property coolant; friction factor f and grid loss coefficient K are read from the region (their values "
               "are C12's subject), velocity and hydraulic diameter are recomputed from vf/geom.py",
               "grid positions strictly inside the bundle (a grid exactly on the bundle boundary is not generated)"]
LEVEL_NOTE = "1e-10 relative on every part"

G = 9.80665


def expected(asm, spec, L, a=None, m=None):
    """Closed forms per region and in total from first principles."""
    a = spec["assemblies"]["A"] if a is None else a
    m = spec["_meta"]["A"] if m is None else m
    rho = spec["materials"]["cool_c"]["density"][0]
    out = {"friction": 0.0, "spacer_grid": 0.0, "gravity": 0.0, "regions": []}
    grav = bool(spec["setup"].get("include_gravity_head_loss"))
    for reg in asm.region:
        Lr = reg.z[1] - reg.z[0]
        e = {"friction": 0.0, "spacer_grid": 0.0, "gravity": rho * G * Lr if grav else 0.0}
        if reg.is_rodded:
            area, wp = geom.bundle_area_wp(m["n_ring"], m["P"], m["D"], m["Dw"], m["H"], m["inner_ftf"])
            de = 4.0 * area / wp
            v = reg.int_flow_rate / rho / area
            f = float(reg.coolant_int_params["ff"])
            e["friction"] = f * Lr * rho * v * v / (2.0 * de)
            sg = a.get("SpacerGrid")
            if sg:
                # a loss coefficient given in the input is the reference itself; a correlation value is read from the region
                # (a missing value with grids in the input makes the closed form unsatisfiable: inf)
                if sg.get("loss_coeff") is not None:
                    K = float(sg["loss_coeff"])
                else:
                    K = float(reg.coolant_int_params.get("grid_loss_coeff", np.inf))
                n = sum(1 for zg in sg["axial_positions"] if reg.z[0] < zg < reg.z[1])
                e["spacer_grid"] = n * K * rho * v * v / 2.0 if n else 0.0
                e["n_grid"] = n
        else:
            f = float(reg.coolant_params["ff"])
            v = float(reg.coolant_params["vel"])
            if reg._rr_equiv is not None:
                de = reg._rr_equiv.bundle_params["de"]
            else:
                de = reg._params["de"]
                # independent velocity for an unrodded region: m / (rho * vf * A_hex)
                vi = reg.flow_rate / rho / (reg.vf["coolant"] * geom.hex_area(reg.duct_ftf[0]))
                e["v_err"] = abs(vi - v) / v
            e["friction"] = f * Lr * rho * v * v / (2.0 * de)
        out["regions"].append(e)
        for k in ("friction", "spacer_grid", "gravity"):
            out[k] += e[k]
    return out


def run(spec):
    o = Outcome()
    # pre-pass: stability requirement -> dyadic base step and core length
    with drive.Case(spec) as c:
        sp0 = copy.deepcopy(c.spec)
        sp0["core"]["length"] = 1.0
        drive.scale_lengths(sp0, 1.0)
        sp0["assemblies"]["A"].pop("SpacerGrid", None)      # positions are fixed below, once the mesh is known
    with drive.Case(sp0) as c:
        c.write()
        c.read()
        r0 = c.make_reactor()
        req = float(r0.req_dz)
    kexp = int(math.ceil(-math.log2(req * 0.9)))
    s = 2.0 ** (-kexp)
    if s < 2.0 ** -13:
        o.inconclusive = "step_too_small"
        return o
    N = spec["core"]["n_steps"]
    N = int(max(8, (N // 8) * 8))
    L = N * s
    base = copy.deepcopy(spec)
    base["core"]["length"] = L
    a = base["assemblies"]["A"]
    # regions on multiples of s * 8 so that they stay planes on every mesh used below
    for rname, reg in (a.get("AxialRegion") or {}).items():
        for key in ("z_lo", "z_hi"):
            frac = reg[key + "_frac"]
            reg[key] = round(frac * N / 8.0) * 8 * s
            del reg[key + "_frac"]
    regs = a.get("AxialRegion") or {}
    z_lo = max([r_["z_hi"] for r_ in regs.values() if r_["z_lo"] == 0.0] + [0.0])
    z_hi = min([r_["z_lo"] for r_ in regs.values() if r_["z_lo"] > 0.0] + [L])
    if any(r_["z_hi"] <= r_["z_lo"] for r_ in regs.values()) or z_hi - z_lo < 16 * s:
        a.pop("AxialRegion", None)
        z_lo, z_hi = 0.0, L
    on_plane = False
    sg = a.get("SpacerGrid")
    if sg:
        pos = []
        for kind, u in sg.pop("_positions"):
            n_in = int(round((z_hi - z_lo) / s))
            j = 1 + int(u * (n_in - 2))
            if kind == "plane":            # on a plane of the coarse (and the refined) mesh
                zg = z_lo + j * s
                on_plane = True
            elif kind == "halfplane":      # on a plane of the refined mesh only
                zg = z_lo + (j + 0.5) * s
                on_plane = True
            elif kind == "decimal":
                zg = round(z_lo + (j + 0.37) * s, 4)
            else:
                zg = z_lo + (j + u) * s * 0.999
            if z_lo < zg < z_hi:
                pos.append(zg)
        # the list is stored as typed: ascending, or in the order drawn (grids counted once "in any order")
        uniq = []
        for zg in pos:
            if zg not in uniq:
                uniq.append(zg)
        pos = uniq if sg.pop("_as_drawn", False) else sorted(uniq)
        if pos:
            sg["axial_positions"] = pos
        else:
            a.pop("SpacerGrid")
    for pf in base["power"]["files"]:
        for ap in pf.values():
            ap["zb"] = [0.0, L]
            ap.pop("zb_frac", None)
    results = []
    for mult in (1.0, 0.5, 0.77):
        sp = copy.deepcopy(base)
        sp["setup"]["axial_mesh_size"] = s * mult
        with drive.Case(sp) as c:
            r = c.setup()
            asm = r.assemblies[0]
            drive.sweep(r)
            exp = expected(asm, sp, L)
            # the solver rounds every plane to 1e-12 m while it accumulates the unrounded step
            tol = 1e-10 + 4e-12 / float(np.min(r.dz))
            got = {"friction": 0.0, "spacer_grid": 0.0, "gravity": 0.0}
            tot_regions = 0.0
            for reg, e in zip(asm.region, exp["regions"]):
                for k, v in reg._pressure_drop.items():
                    got[k] += float(v)
                    o.check(float(v) >= 0.0, "negative_part_" + k, repr(v))
                    ref = e[k]
                    sc = max(abs(ref), 1e-300)
                    o.metric("part_rel_err_" + k, abs(float(v) - ref) / sc if ref else abs(float(v)))
                    o.check(abs(float(v) - ref) <= tol * sc + 1e-300, "closed_form_" + k,
                            "step %.6g: region %s %s = %.10e, closed form %.10e%s"
                            % (s * mult, getattr(reg, "name", "?"), k, float(v), ref,
                               (" (%d grids inside)" % e["n_grid"]) if k == "spacer_grid" and "n_grid" in e else ""))
                tot_regions += float(reg.pressure_drop)
                if "v_err" in e:
                    o.check(e["v_err"] <= 1e-12, "unrodded_velocity", "%.3e" % e["v_err"])
            total = float(asm.pressure_drop)
            o.check(abs(total - tot_regions) <= 1e-12 * max(total, 1e-300), "total_is_not_sum_of_regions",
                    "%.10e vs %.10e" % (total, tot_regions))
            o.check(abs(total - sum(got.values())) <= 1e-12 * max(total, 1e-300), "total_is_not_sum_of_parts",
                    "%.10e vs %.10e" % (total, sum(got.values())))
            results.append((mult, total, dict(got)))
    ref = results[0][1]
    for mult, total, got in results[1:]:
        d = abs(total - ref) / max(ref, 1e-300)
        o.metric("step_dependence_rel", d)
        o.check(d <= 1e-10 + 8e-12 / (0.5 * s), "pressure_drop_depends_on_step", "dz %.4g: %.10e vs dz %.4g: %.10e (grids %.6e vs %.6e)"
                % (s, ref, s * mult, total, results[0][2]["spacer_grid"], got["spacer_grid"]))
    m = spec["_meta"]["A"]
    o.classes.update({"n_ring": m["n_ring"], "friction": a["corr_friction"], "grids": len((a.get("SpacerGrid") or {}).get("axial_positions", [])),
                      "grid_on_plane": on_plane and "SpacerGrid" in a,
                      "grids_ascending": list((a.get("SpacerGrid") or {}).get("axial_positions", [])) == sorted((a.get("SpacerGrid") or {}).get("axial_positions", [])), "gravity": bool(spec["setup"].get("include_gravity_head_loss")),
                      "regions": 1 + len(a.get("AxialRegion") or {}), "lowfi": bool(a.get("use_low_fidelity_model"))})
    o.nontrivial = (on_plane and "SpacerGrid" in a) or o.classes["regions"] >= 2
    return o


def run_core(spec):
    """Every assembly of a core (several positions of one type, twins): per-region parts equal the closed forms and the
    total is their sum - whatever else is in the core."""
    o = Outcome()
    with drive.Case(spec) as c:
        r = c.setup()
        sp = c.spec
        drive.sweep(r)
        tol = 1e-10 + 4e-12 / float(np.min(r.dz))
        names = [a.name for a in r.assemblies]
        worst = 0.0
        for k, asm in enumerate(r.assemblies):
            exp = expected(asm, sp, sp["core"]["length"], a=sp["assemblies"][asm.name], m=sp["_meta"]["types"][asm.name])
            tot_regions = 0.0
            for reg, e in zip(asm.region, exp["regions"]):
                for key, v in reg._pressure_drop.items():
                    ref = e[key]
                    sc = max(abs(ref), 1e-300)
                    worst = max(worst, abs(float(v) - ref) / sc if ref else abs(float(v)))
                    o.check(float(v) >= 0.0, "negative_part_" + key, repr(v))
                    o.check(abs(float(v) - ref) <= tol * sc + 1e-300, "core_closed_form_" + key,
                            "asm %d (%s, one of %d of its type) region %s: %s = %.10e, closed form %.10e"
                            % (k, asm.name, names.count(asm.name), getattr(reg, "name", "?"), key, float(v), ref))
                tot_regions += float(reg.pressure_drop)
            total = float(asm.pressure_drop)
            o.check(abs(total - tot_regions) <= 1e-12 * max(total, 1e-300), "total_is_not_sum_of_regions",
                    "asm %d: %.10e vs %.10e" % (k, total, tot_regions))
        o.metric("core_part_rel_err", worst)
        same = max(names.count(n) for n in set(names))
        o.classes.update({"n_asm": len(names), "max_same_type": min(same, 4),
                          "unrodded_regions": any(not g.is_rodded for a in r.assemblies for g in a.region),
                          "gravity": bool(spec["setup"].get("include_gravity_head_loss"))})
        o.nontrivial = same >= 2
    return o


@st.composite
def core_cases(draw):
    spec = draw(gen.core_spec(core_rings=(2, 2), n_types=(1, 2), rings=(2, 3), ducts=(1, 2), gap_models=("none", "flow"),
                              n_steps=(20, 50), regimes=("lam", "tra", "tur"), regions=True, lowfi=True, twins=True, max_cells=1))
    spec["setup"]["include_gravity_head_loss"] = draw(st.booleans())
    return spec


@st.composite
def cases(draw, q):
    spec = draw(gen.single_assembly(rings=(2, 4) if q else (2, 6), ducts=(1, 2), n_steps=(32, 96),
                                    gap_model=draw(st.sampled_from(["none", "flow"])), regimes=("lam", "tra", "tur"),
                                    regions=True, lowfi=True, max_cells=1, safe_corr=True))
    spec["setup"]["include_gravity_head_loss"] = draw(st.booleans())
    a = spec["assemblies"]["A"]
    if not a.get("use_low_fidelity_model") and draw(st.integers(0, 3)) > 0:
        n = draw(st.integers(1, 5))
        sg = {"_positions": [(draw(st.sampled_from(["plane", "plane", "halfplane", "decimal", "generic"])),
                              draw(gen.fl(0.0, 1.0))) for _ in range(n)]}
        if draw(st.booleans()) or a["corr_flowsplit"] not in ("CTD", "UCTD"):
            sg["loss_coeff"] = gen.r6(draw(gen.fl(0.2, 3.0)))
        else:
            sg["corr"] = draw(st.sampled_from(["REH", "CDD"]))
            sg["solidity"] = gen.r6(draw(gen.fl(0.1, 0.6)))
        sg["_as_drawn"] = draw(st.booleans())
        a["SpacerGrid"] = sg
    return spec


def parts(tier):
    q = tier == "quick"
    return [Part("closed_form_and_step_independence", run, strategy=cases(q), examples=160 if q else 3000, timeout=180),
            Part("core_assemblies", run_core, strategy=core_cases(), examples=48 if q else 1200, timeout=180)]

"""C17 - results do not depend on the unit system of the input."""
import copy
import math

import numpy as np
from hypothesis import strategies as st

from .. import drive, env, gen, observe, units
from ..runner import Outcome, Part
from .C09 import type_defs

ID = "C17"
TITLE = "Results do not depend on the unit system of the input"
TECHNIQUE = "exhaustive enumeration of the 5 x 3 x 6 unit systems (and alias spellings) on fully specified problems plus property-based sampling of generated problems: metamorphic comparison of the parsed internal data, the axial mesh and the swept temperatures with the SI original; scalar round trips"
RULE = ("unit_systems_exhaustive: every length x temperature x mass-flow unit combination (90) applied to two hand-built "
        "problems that set every dimensional key of Setup / Core / Assembly / AxialRegion / SpacerGrid / Fuel-/PinModel / "
        "Assignment (one with all optional keys, one leaving optional keys out) - complete enumeration; generated: "
        "hypothesis-built cores re-expressed in a drawn unit system and alias spelling, compared after a sweep.  Non-trivial: "
        "at least one of the three units differs from SI; distinct = spec hash")
ASSUMPTIONS = ["the unit-system copy is produced with the exact inverse of DASSH's documented conversion factors (its pound is 0.453592 kg)",
               "user power CSV files are not converted: their format is fixed to metres and W/m"]
LEVEL_NOTE = "internal data compared to 1e-13 relative; temperatures to 1e-8 K, axial planes to 1e-12 m"


def full_spec(optional=True):
    """A deterministic SI problem touching every dimensional input key."""
    T = type_defs()
    a0 = copy.deepcopy(T["R3"][0])
    a1 = copy.deepcopy(T["R4"][0])
    L = 0.8
    a0["AxialRegion"] = {"lower": {"model": "simple", "z_lo": 0.0, "z_hi": 0.15, "vf_coolant": 0.4},
                         "upper": {"model": "6node", "z_lo": 0.65, "z_hi": L, "vf_coolant": 0.5}}
    a0["FuelModel"] = {"clad_material": "ht9", "r_frac": [0.0, 0.5], "pu_frac": [0.1, 0.2], "zr_frac": [0.1, 0.1],
                       "porosity": [0.1, 0.2], "gap_thickness": 0.0}
    a1["PinModel"] = {"clad_material": "ss316", "r_frac": [0.0], "pin_material": ["pinmat"], "gap_thickness": 0.0}
    spec = {"setup": {"calc_energy_balance": True}, "materials": {
        "cool_c": {"thermal_conductivity": [70.0], "heat_capacity": [1270.0], "density": [850.0], "viscosity": [2.5e-4]},
        "duct_c": {"thermal_conductivity": [20.0], "heat_capacity": [500.0], "density": [7800.0]},
        "pinmat": {"thermal_conductivity": [12.0, 0.004], "heat_capacity": [300.0], "density": [10000.0]}},
        "core": {"coolant_inlet_temp": 623.15, "coolant_material": "cool_c", "length": L, "assembly_pitch": 0.104,
                 "gap_model": "flow", "bypass_fraction": 0.05},
        "assemblies": {"R3": a0, "R4": a1},
        "assignment": [["R3", 1, 1, 1, {"FLOWRATE": 1.7}], ["R4", 2, 1, 1, {"OUTLET_TEMP": 700.0}],
                       ["R3", 2, 3, 4, {"DELTA_TEMP": 60.0}], ["R4", 2, 5, 6, {"FLOWRATE": 2.9}]],   # lines spanning 2 positions
        "power": {"total_power": 4.0e5, "files": [{}]}}
    from .. import geom
    for row in spec["assignment"]:
        for pos in range(row[2], row[3] + 1):
            idx = 0 if row[1] == 1 else 3 * (row[1] - 1) * (row[1] - 2) + pos
            n_pin = geom.counts(T[row[0]][1]["n_ring"])[0]
            spec["power"]["files"][0][str(idx + 1)] = {"zb": [0.0, 0.4, L], "pins": {
                "n": n_pin, "base": [[300.0, 100.0], [500.0, -200.0]], "amp": [0.3, 0.1], "freq": [0.7, 1.3], "phase": [0.2, 1.0]}}
    if optional:
        a0["AxialRegion"]["lower"].update({"hydraulic_diameter": 0.0123, "epsilon": 2.5e-5})
        a0["AxialRegion"]["upper"].update({"hydraulic_diameter": 0.0071, "epsilon": 1.0e-5, "convection_factor": 0.7})
        a0["FuelModel"].update({"gap_thickness": 1.5e-4, "gap_material": "sodium"})
        a1["PinModel"].update({"gap_thickness": 0.8e-4, "gap_material": "sodium"})
        a0["SpacerGrid"] = {"loss_coeff": 1.2, "axial_positions": [0.25, 0.45, 0.6]}
        spec["setup"].update({"axial_mesh_size": 0.0007, "axial_plane": [0.1234, 0.5, 0.77], "conv_approx": True,
                              "conv_approx_dz_cutoff": 0.004, "dump": {"interval": 0.05, "coolant": False}})
    return spec


def load_data(spec):
    with drive.Case(spec) as c:
        c.write()
        inp = c.read()
        return copy.deepcopy(inp.data)


SKIP = {("Setup", "Units")}


def compare_data(o, a, b, path=()):
    """Walk two parsed-input structures; numbers must agree to 1e-13 relative."""
    if path in SKIP or (path and path[-1] in ("user_power", "from_file")):
        return
    if path == ("Setup", "axial_plane") and a is not None and b is not None:
        a, b = sorted(a), sorted(b)        # the reader de-duplicates through a set: order is not meaningful
    if isinstance(a, dict) and isinstance(b, dict):
        for k in sorted(set(a) | set(b), key=str):
            if k not in a or k not in b:
                o.fail("internal_data_key_set_differs", "/".join(map(str, path + (k,))))
                continue
            compare_data(o, a[k], b[k], path + (k,))
        return
    if isinstance(a, (list, tuple, np.ndarray)) and isinstance(b, (list, tuple, np.ndarray)):
        if len(a) != len(b):
            o.fail("internal_data_length_differs", "/".join(map(str, path)))
            return
        for i, (x, y) in enumerate(zip(a, b)):
            compare_data(o, x, y, path + (i,))
        return
    o.checks += 1
    num = (int, float, np.integer, np.floating)
    if isinstance(a, num) and isinstance(b, num) and not isinstance(a, bool) and not isinstance(b, bool):
        if not (abs(float(a) - float(b)) <= 1e-13 * max(abs(float(a)), abs(float(b))) + 1e-300):
            key = "/".join(str(p) for p in path if not isinstance(p, int))
            o.fail("internal_value_differs:" + key, "%s: SI %r vs converted %r (ratio %.6g)"
                   % ("/".join(map(str, path)), a, b, (float(b) / float(a)) if a else float("nan")))
        return
    if type(a) != type(b) and not (a is None or b is None):
        if isinstance(a, num) and isinstance(b, num):
            return
    if a != b and not (hasattr(a, "name") and hasattr(b, "name")):
        key = "/".join(str(p) for p in path if not isinstance(p, int))
        o.fail("internal_value_differs:" + key, "%s: SI %r vs converted %r" % ("/".join(map(str, path)), a, b))


def run_data(spec):
    o = Outcome()
    u = spec["_units"]
    si = {k: v for k, v in spec.items() if k != "_units"}
    other = units.convert(si, u["length"], u["temperature"], u["mass"], u["time"], u.get("spelling", 0))
    o.classes.update({"length": u["length"], "temperature": u["temperature"], "mfr": "%s/%s" % (u["mass"], u["time"]),
                      "optional_keys": bool(spec.get("_optional", True))})
    d0 = load_data(si)
    try:
        d1 = load_data(other)
    except drive.Crashed as e:
        o.fail("unit_system_not_readable:%s@%s" % (e.exc_type, e.where), "%s with units %s" % (e, other["setup"]["units"]))
        return o
    except drive.Rejected as e:
        o.fail("unit_system_rejected", "%s with units %s" % (str(e)[:200], other["setup"]["units"]))
        return o
    compare_data(o, d0, d1)
    o.nontrivial = not (u["length"] == "m" and u["temperature"] == "kelvin" and (u["mass"], u["time"]) == ("kg", "s"))
    o.sample = {"units": other["setup"]["units"]}
    return o


def run_sweep(spec):
    o = Outcome()
    u = spec["_units"]
    si = {k: v for k, v in spec.items() if k != "_units"}
    with drive.Case(si) as c:
        c.resolve_length()
        si = copy.deepcopy(c.spec)
    other = units.convert(si, u["length"], u["temperature"], u["mass"], u["time"], u.get("spelling", 0))
    o.classes.update({"length": u["length"], "temperature": u["temperature"], "mfr": "%s/%s" % (u["mass"], u["time"]),
                      "multi_position_lines": bool(spec.get("_merged_lines"))})
    res = []
    for sp in (si, other):
        with drive.Case(sp) as c:
            try:
                r = c.setup()
            except drive.Crashed as e:
                o.fail("unit_system_not_readable:%s@%s" % (e.exc_type, e.where), str(e)[:300])
                return o
            drive.sweep(r)
            temps = [np.concatenate([t.ravel() for _, _, t in observe.streams(a.active_region)]) for a in r.assemblies]
            res.append((np.array(r.z), np.concatenate(temps), [float(a.pressure_drop) for a in r.assemblies],
                        [float(a.flow_rate) for a in r.assemblies], copy.deepcopy(c.inp.data)))
    z0, t0, p0, f0, d0 = res[0]
    z1, t1, p1, f1, d1 = res[1]
    compare_data(o, d0, d1)
    if o.check(len(z0) == len(z1), "axial_mesh_differs", "%d vs %d planes" % (len(z0), len(z1))):
        dz = float(np.max(np.abs(z0 - z1)))
        o.metric("plane_deviation_m", dz)
        # (every plane is the previous one plus the step, rounded to 1e-12 m: a last-bit difference of the converted step
        #  can flip one rounding per plane, and the flips accumulate along the height)
        o.check(dz <= 1e-12 * len(z0), "axial_planes_differ", "%.3e m over %d planes" % (dz, len(z0)))
        if o.check(t0.shape == t1.shape, "temperature_fields_differ_in_shape", "%s vs %s" % (t0.shape, t1.shape)):
            dt = float(np.max(np.abs(t0 - t1)))
            o.metric("temperature_deviation_K", dt)
            o.check(dt <= 1e-8, "temperatures_differ", "%.3e K" % dt)
    o.check(max(abs(a - b) / max(abs(a), 1e-300) for a, b in zip(f0, f1)) <= 1e-12, "flow_rates_differ")
    # (an undefined pressure drop - friction correlation far below its range - is the same in both unit systems if both are NaN)
    pd_dev = [0.0 if (np.isnan(a) and np.isnan(b)) else abs(a - b) / max(abs(a), 1e-300) for a, b in zip(p0, p1)]
    o.check(all(d <= 1e-9 for d in pd_dev), "pressure_drops_differ", "%s vs %s" % (p0[:4], p1[:4]))
    o.nontrivial = not (u["length"] == "m" and u["temperature"] == "kelvin" and (u["mass"], u["time"]) == ("kg", "s"))
    return o


def run_roundtrip(spec):
    env.setup()
    from dassh import utils as du
    o = Outcome()
    x = spec["x"]
    kind, a, b = spec["kind"], spec["a"], spec["b"]
    get = {"length": du.get_length_conversion, "temperature": du.get_temperature_conversion,
           "mass": du.get_mass_conversion, "time": du.get_time_conversion}[kind]
    fwd = drive.guarded("conv", get, a, b)
    back = drive.guarded("conv", get, b, a)
    y = fwd(x)
    z = back(y)
    scale = max(abs(x), 300.0 if kind == "temperature" else 0.0, 1e-300)
    o.check(abs(z - x) <= 1e-13 * scale, "round_trip_%s" % kind, "%s -> %s -> %s: %r -> %r -> %r" % (a, b, a, x, y, z))
    o.check(math.isfinite(y), "conversion_not_finite")
    o.nontrivial = True
    o.classes["kind"] = kind
    return o


def unit_triples():
    out = []
    for ln in units.LENGTH:
        for tp in units.TEMP:
            for ms in units.MASS:
                for tm in units.TIME:
                    out.append({"length": ln, "temperature": tp, "mass": ms, "time": tm})
    return out


def exhaustive_cases():
    cases = []
    for opt in (True, False):
        base = full_spec(opt)
        for k, u in enumerate(unit_triples()):
            s = copy.deepcopy(base)
            s["_units"] = dict(u, spelling=k % 3)
            s["_optional"] = opt
            cases.append(s)
    return cases


@st.composite
def generated(draw, q):
    spec = draw(gen.core_spec(core_rings=(1, 2), n_types=(1, 2), rings=(2, 3), ducts=(1, 2), gap_models=("flow", "none", "no_flow"),
                              regimes=("lam", "tra", "tur"), n_steps=(15, 40), lowfi=True, regions=True, max_cells=2,
                              byp_frac=(0.02, 0.3), bc_kinds=("FLOWRATE", "OUTLET_TEMP", "DELTA_TEMP"), conv_approx=True))
    for a in spec["assemblies"].values():
        for r in (a.get("AxialRegion") or {}).values():
            r.setdefault("epsilon", gen.r6(draw(gen.logfl(1e-7, 1e-4))))
    if draw(st.booleans()):
        spec["setup"]["axial_plane_frac"] = [round(draw(gen.fl(0.05, 0.95)), 4) for _ in range(2)]
    if draw(st.booleans()):
        spec["setup"]["axial_mesh_size_frac"] = gen.r6(draw(gen.logfl(0.003, 0.05)))
    spec["_units"] = {"length": draw(st.sampled_from(list(units.LENGTH))), "temperature": draw(st.sampled_from(units.TEMP)),
                      "mass": draw(st.sampled_from(list(units.MASS))), "time": draw(st.sampled_from(list(units.TIME))),
                      "spelling": draw(st.integers(0, 2))}
    if draw(st.booleans()):
        spec["power"]["total_power"] = None      # (the flows of merged lines no longer match the drawn temperature rises)
        spec["_merged_lines"] = gen.merge_assignment_lines(spec)
    return spec


@st.composite
def roundtrips(draw):
    kind = draw(st.sampled_from(["length", "temperature", "mass", "time"]))
    pools = {"length": ["m", "cm", "mm", "in", "ft"], "temperature": ["k", "c", "f"], "mass": ["kg", "lb"], "time": ["s", "min", "hr"]}
    base = pools[kind][0]
    other = draw(st.sampled_from(pools[kind][1:]))
    a, b = (base, other) if draw(st.booleans()) else (other, base)
    x = draw(gen.fl(1.0, 2000.0)) if kind == "temperature" else draw(gen.logfl(1e-9, 1e9))
    return {"kind": kind, "a": a, "b": b, "x": x}


def parts(tier):
    q = tier == "quick"
    return [
        Part("unit_systems_exhaustive", run_data, cases=exhaustive_cases(), exhaustive=True,
             note="5 lengths x 3 temperatures x 2 masses x 3 times, with and without optional keys"),
        Part("generated_sweeps", run_sweep, strategy=generated(q), examples=32 if q else 800, timeout=180),
        Part("scalar_round_trips", run_roundtrip, strategy=roundtrips(), examples=300 if q else 10000),
    ]

"""C20 - orifice grouping partitions the assemblies; flow distribution conserves flow."""
import math

import numpy as np
from hypothesis import strategies as st

from .. import drive, env, gen
from ..runner import Outcome, Part

ID = "C20"
TITLE = "Orifice grouping partitions assemblies; flow distribution conserves flow"
TECHNIQUE = ("property-based testing (Hypothesis): Orificing instances populated with generated power lists, group counts, cut-offs and "
             "parametric response curves; validity predicates (partition, requested group count, order, equal flow per group, flow sum, "
             "pressure-drop limit) evaluated on Orificing.group_by_power/_group and after every step of generated iteration histories "
             "distribute -> synthetic sweep results -> (regroup) -> distribute ...")
RULE = ("grouping: power lists of 1-40 assemblies (ties, log-spread, clustered, near-ties), group counts 1..N+1 (N+1 is impossible), "
        "cut-off and cut-off step over their schema ranges; histories: 2-24 assemblies of 1-3 types, monotone parametric curves per "
        "type, 1-6 groups, optional pressure-drop limit, 1-4 iterations with noisy synthetic sweep results (1-2 time steps) and "
        "regrouping never/once/every.  Non-trivial: grouping - more than one group was requested and formed or an error was "
        "raised; histories - at least one distribution with more than one group completed; distinct = spec hash")
ASSUMPTIONS = ["a run that stops with DASSH's logged error (SystemExit) is the 'or stops with an error' outcome, except the message "
               "'Mass flow rate not conserved', which reports the very violation the property excludes",
               "after a regrouping step only the partition clauses are required (regrouping moves assemblies by temperature, not by power)",
               "total flow of iteration k>1 = previous total x (previous bulk rise / target rise), as documented in distribute()"]
LEVEL_NOTE = "flow sums to 1e-9 relative; pressure drop compared through an independent interpolation of the type's curve"


def make_orificing(oi, t_in, coolant):
    import dassh
    from dassh.orificing import Orificing
    from dassh.logged_class import LoggedClass
    o = Orificing.__new__(Orificing)
    LoggedClass.__init__(o, 0, "dassh.Orificing")
    o.orifice_input = oi
    o.coolant = coolant
    o.t_in = t_in
    o._dp_limit = np.zeros(oi["n_groups"])
    o._recycle = False
    col = {"peak coolant temp": (("cool", None), 5), "peak clad MW temp": (("pin", "clad_mw"), 7),
           "peak clad ID temp": (("pin", "clad_id"), 8), "peak fuel temp": (("pin", "fuel_cl"), 10)}[oi["value_to_optimize"]]
    o._opt_keys, o._opt_col = col
    return o


def coolant_obj(kind):
    import dassh
    if kind == "const":
        return dassh.Material("c20cool", coeff_dict={"thermal_conductivity": [70.0], "heat_capacity": [1275.0], "density": [850.0],
                                                     "viscosity": [0.00025]})
    return dassh.Material("sodium")


def check_partition(o, gd, ids, n_groups, tag):
    """gd: N x 3 (id, parameter, group)."""
    ok = gd.ndim == 2 and gd.shape[1] == 3 and gd.shape[0] == len(ids)
    o.check(ok, "group_table_shape" + tag, "shape %s for %d assemblies" % (gd.shape, len(ids)))
    if not ok:
        return False
    o.check(sorted(gd[:, 0].tolist()) == sorted(float(i) for i in ids), "not_every_assembly_exactly_once" + tag,
            "ids in the group table: %s" % sorted(gd[:, 0].tolist())[:12])
    g = gd[:, 2]
    o.check(bool(np.all(g == np.round(g))), "group_index_not_integer" + tag)
    present = sorted(set(int(x) for x in g))
    o.check(present == list(range(n_groups)), "wrong_number_of_nonempty_groups" + tag,
            "requested %d groups, group indices present: %s" % (n_groups, present))
    return present == list(range(n_groups))


def check_order(o, gd, tag=""):
    g = gd[:, 2]
    v = gd[:, 1]
    bad = None
    order = np.argsort(g, kind="stable")
    # later group must not contain a larger parameter than any earlier group
    run_min = np.inf
    cur = None
    prev_min = np.inf
    for k in order:
        if cur is None or g[k] != cur:
            prev_min = min(prev_min, run_min)
            run_min = np.inf
            cur = g[k]
        if v[k] > prev_min:
            bad = (int(gd[k, 0]), float(v[k]), int(g[k]), float(prev_min))
        run_min = min(run_min, v[k])
    o.check(bad is None, "groups_not_ordered_by_parameter" + tag,
            "assembly %s with parameter %s is in group %s although an earlier group holds %s" % (bad or (0, 0, 0, 0)))


# ------------------------------------------------------------------------------------------------
def run_grouping(spec):
    o = Outcome()
    vals = spec["values"]
    ids = spec["ids"]
    n = spec["n_groups"]
    oi = {"n_groups": n, "group_cutoff": spec["cutoff"], "group_cutoff_delta": spec["delta"],
          "value_to_optimize": spec["opt"], "assemblies_to_group": ["A"]}
    orf = make_orificing(oi, 600.0, None)
    params = np.array([[float(i), float(v)] for i, v in zip(ids, vals)])

    def fake_get_power(group_by="linear_power"):
        orf._power_to_grp = params.copy()
        orf._power = params.copy()
        orf._lin_power = params.copy()
    orf._get_power = fake_get_power
    o.classes.update({"n_asm": len(vals), "n_groups": n, "style": spec["style"], "distinct_values": len(set(vals)),
                      "feasible": len(set(vals)) >= n})
    try:
        drive.guarded("group_by_power", orf.group_by_power)
    except drive.Rejected as e:
        o.classes["outcome"] = "error"
        o.classes["error_when_feasible"] = len(set(vals)) >= n
        o.nontrivial = True
        return o
    except drive.Crashed as e:
        o.fail("cannot_evaluate:%s@%s" % (e.exc_type, e.where), str(e)[:300])
        return o
    o.classes["outcome"] = "grouped"
    gd = np.asarray(orf.group_data, float)
    if check_partition(o, gd, ids, n, ""):
        pass
    if gd.ndim == 2 and gd.shape == (len(ids), 3):
        # the parameter column still belongs to the assembly of that row, rows sorted by id
        look = dict(zip(ids, vals))
        o.check(all(look.get(int(r[0])) == r[1] for r in gd), "parameter_detached_from_assembly")
        o.check(bool(np.all(np.diff(gd[:, 0]) > 0)), "group_table_not_sorted_by_id")
        check_order(o, gd)
    o.nontrivial = n > 1
    return o


@st.composite
def grouping_specs(draw, q):
    n_asm = draw(st.integers(1, 40))
    style = draw(st.sampled_from(["ties", "spread", "clustered", "near_ties", "linear"]))
    if style == "ties":
        pool = [gen.r6(draw(gen.logfl(1e4, 1e7))) for _ in range(draw(st.integers(1, 5)))]
        vals = [draw(st.sampled_from(pool)) for _ in range(n_asm)]
    elif style == "spread":
        vals = [gen.r6(draw(gen.logfl(1e3, 1e7))) for _ in range(n_asm)]
    elif style == "clustered":
        cen = [draw(gen.logfl(1e5, 1e7)) for _ in range(draw(st.integers(1, 6)))]
        vals = [gen.r6(draw(st.sampled_from(cen)) * (1 + draw(gen.fl(-0.02, 0.02)))) for _ in range(n_asm)]
    elif style == "near_ties":
        base = draw(gen.logfl(1e5, 1e7))
        vals = [base * (1 + draw(st.integers(0, 20)) * 1e-9) for _ in range(n_asm)]
    else:
        lo = draw(gen.logfl(1e4, 1e6))
        step = draw(gen.fl(0.001, 0.2))
        vals = [gen.r6(lo * (1 + step * i)) for i in range(n_asm)]
        vals = list(draw(st.permutations(vals)))
    ids = list(draw(st.permutations(list(range(n_asm)))))
    if draw(st.booleans()):
        ids = [i * 3 + 2 for i in ids]          # ids need not be contiguous (ungrouped assemblies in between)
    n_groups = draw(st.integers(1, min(n_asm + 1, 8)) | st.integers(1, n_asm + 1))
    cutoff = draw(st.sampled_from([0.05, 0.001, 1.0]) | gen.logfl(0.001, 1.0))
    delta = draw(st.sampled_from([0.001, 1e-5, 1.0]) | gen.logfl(1e-5, 1.0))
    return {"values": vals, "ids": ids, "n_groups": n_groups, "cutoff": gen.r6(cutoff), "delta": float("%.6g" % delta),
            "style": style, "opt": draw(st.sampled_from(["peak coolant temp", "peak clad MW temp"]))}


def check_distribution(o, orf, m, n, sid, tp, m_expected, dp_limit, tag):
    """m: flows returned by distribute() (one per grouped assembly, ordered by id); tp: true type index per assembly."""
    N = len(sid)
    ok = m.shape == (N,) and bool(np.all(np.isfinite(m)))
    o.check(ok, "flows_not_finite" + tag, "shape %s, finite %s" % (m.shape, bool(np.all(np.isfinite(m))) if m.shape == (N,) else "-"))
    if not ok:
        return False
    g = np.asarray(orf.group_data)[:, 2].astype(int)
    for gi in range(n):
        mg = m[g == gi]
        o.check(mg.size > 0 and bool(np.all(mg == mg[0])), "unequal_flow_within_group" + tag,
                "group %d flows %s" % (gi, mg[:6].tolist()))
    tot = float(np.sum(m))
    o.check(abs(tot - m_expected) <= 1e-9 * m_expected + 1e-12, "flows_do_not_sum_to_required_total" + tag,
            "sum %.12g, required %.12g" % (tot, m_expected))
    o.metrics["rel_flow_sum_error"] = max(o.metrics.get("rel_flow_sum_error", 0.0), abs(tot - m_expected) / m_expected)
    if dp_limit is not None:
        lim = dp_limit * 1e6
        for k in range(N):
            d = orf._parametric["data"][tp[k]]
            idx = np.argsort(d[:, 2])
            dp = float(np.interp(m[k], d[idx, 2], d[idx, 3]))
            if not np.isfinite(dp):
                # the parametric table itself has no pressure drop at this flow (NaN rows of the parametric sweep at
                # very low flow): there is nothing to compare the limit with
                o.classes["dp_undefined_in_table"] = True
                continue
            o.check(dp <= lim * (1 + 1e-9), "pressure_drop_limit_exceeded" + tag,
                    "assembly %d (group %d): flow %.6g kg/s -> %.6g Pa > limit %.6g Pa" % (sid[k], g[k], m[k], dp, lim))
        o.classes["dp_limited"] = bool(np.any(orf._dp_limit))
    o.classes["negative_flow"] = o.classes.get("negative_flow", False) or bool(np.any(m <= 0))
    return True


# ------------------------------------------------------------------------------------------------
def curve(ct, power, t_in, n_pts=12):
    """Parametric sweep table of one assembly type, columns as run_parametric writes them:
    P/m [MW/(kg/s)], P [W], m [kg/s], pressure drop [Pa], T_opt [K]."""
    d = np.zeros((n_pts, 5))
    d[:, 0] = np.geomspace(0.05, 1.0, n_pts)
    d[:, 1] = power
    d[:, 2] = power / 1e6 / d[:, 0]
    d[:, 3] = ct["dp_c"] * d[:, 2] ** ct["dp_n"]
    x = d[:, 0]
    d[:, 4] = t_in + ct["k1"] * x + ct["k2"] * x * x
    return d


def t_opt_true(ct, p, m, t_in, noise):
    x = p / 1e6 / m
    return t_in + (ct["k1"] * x + ct["k2"] * x * x) * noise


def run_history(spec):
    o = Outcome()
    t_in = spec["t_in"]
    cool = coolant_obj(spec["coolant"])
    ids = spec["ids"]
    types = spec["types"]            # type index per assembly (same order as ids)
    powers = spec["powers"]
    ntyp = len(spec["curves"])
    n = spec["n_groups"]
    N = len(ids)
    oi = {"n_groups": n, "group_cutoff": spec["cutoff"], "group_cutoff_delta": spec["delta"], "value_to_optimize": spec["opt"],
          "assemblies_to_group": ["T%d" % i for i in range(ntyp)], "bulk_coolant_temp": spec["t_bulk"],
          "pressure_drop_limit": spec["dp_limit"], "regroup_option_tol": spec["regroup_tol"],
          "regroup_improvement_tol": spec["improve_tol"], "regroup": spec["regroup"]}
    orf = make_orificing(oi, t_in, cool)
    order = np.argsort(ids)
    sid = [ids[k] for k in order]
    params = np.array([[float(ids[k]), float(powers[k])] for k in order])
    orf._power = params.copy()
    orf._power_to_grp = params.copy()
    orf._get_power = lambda group_by="linear_power": None
    tp = [types[k] for k in order]
    avgp = [float(np.mean([powers[k] for k in range(N) if types[k] == t] or [1.0e6])) for t in range(ntyp)]
    orf._parametric = {"asm_ids": np.array([[sid[k], tp[k]] for k in range(N)], dtype=int),
                       "asm_names": oi["assemblies_to_group"],
                       "data": [curve(spec["curves"][t], avgp[t], t_in) for t in range(ntyp)]}
    o.classes.update({"n_asm": N, "n_groups": n, "n_types": ntyp, "dp_limit": spec["dp_limit"] is not None, "regroup": spec["regroup"],
                      "iterations": len(spec["iters"]), "coolant": spec["coolant"], "focus": spec.get("focus", "general")})
    try:
        drive.guarded("group_by_power", orf.group_by_power)
    except drive.Rejected:
        o.inconclusive = "grouping_error"
        return o
    except drive.Crashed as e:
        o.fail("cannot_evaluate:%s@%s" % (e.exc_type, e.where), str(e)[:300])
        return o
    if not check_partition(o, np.asarray(orf.group_data, float), sid, n, "_initial"):
        return o
    dT_target = spec["t_bulk"] - t_in
    cool.update(t_in + 0.5 * dT_target)
    cp_mean = float(cool.heat_capacity)
    cool.update(t_in)
    m_expected = math.fsum(powers) / cp_mean / dT_target
    res_prev, t_out_prev = None, None
    done = 0
    for it, step in enumerate(spec["iters"]):
        if it >= 1 and spec["regroup"] != "never" and (spec["regroup"] == "every" or it == 1):
            try:
                drive.guarded("regroup", orf.regroup, res_prev)
            except drive.Rejected as e:
                o.classes["stopped"] = "regroup_error"
                break
            except drive.Crashed as e:
                o.fail("cannot_evaluate:%s@%s" % (e.exc_type, e.where), "iteration %d: %s" % (it + 1, str(e)[:300]))
                break
            if not check_partition(o, np.asarray(orf.group_data, float), sid, n, "_after_regroup"):
                break
            o.classes["regrouped"] = True
        try:
            m, tlim = drive.guarded("distribute", orf.distribute, res_prev, t_out_prev)
        except drive.Rejected as e:
            msg = str(e)
            o.classes["stopped"] = "error:" + msg.split(":")[-1].strip()[:40]
            if "not conserved" in msg:
                o.fail("flow_not_conserved_reported", "iteration %d: %s" % (it + 1, msg[:200]))
            break
        except drive.Crashed as e:
            o.fail("cannot_evaluate:%s@%s" % (e.exc_type, e.where), "iteration %d: %s" % (it + 1, str(e)[:300]))
            break
        m = np.asarray(m, float)
        tag = "_iter%d" % min(it + 1, 2)
        if not check_distribution(o, orf, m, n, sid, tp, m_expected, spec["dp_limit"], tag):
            break
        tot = float(np.sum(m))
        done += 1
        if np.any(orf._dp_limit) or bool(np.any(m <= 0)):
            break               # optimize() stops iterating here too
        # synthetic sweep with these flows
        rows = []
        for t in range(spec["timesteps"]):
            for k in range(N):
                ct = spec["curves"][tp[k]]
                pk = params[k, 1] * step["pscale"][t]
                tout = t_in + pk / cp_mean / m[k]
                topt = t_opt_true(ct, pk, m[k], t_in, step["noise"][k % len(step["noise"])])
                prof = [topt * (1 + 0.01 * j) for j in range(6)]
                r = [float(t), float(sid[k]), pk, m[k], tout] + [0.0] * 6
                for c in range(5, 11):
                    r[c] = prof[c - 5]
                r[orf._opt_col] = topt
                rows.append(r)
        res_prev = np.array(rows)
        try:
            summ = drive.guarded("summarize", orf._summarize_group_data, res_prev)
        except drive.Crashed as e:
            o.fail("cannot_evaluate:%s@%s" % (e.exc_type, e.where), str(e)[:300])
            break
        t_out_prev = float(summ[-1, 0])
        m_expected = tot * (t_out_prev - t_in) / dT_target
    o.classes["distributions_done"] = done
    o.nontrivial = done >= 1 and n > 1
    return o


@st.composite
def history_specs(draw, q):
    N = draw(st.integers(2, 24))
    ntyp = draw(st.integers(1, min(3, N)))
    types = [t if t < ntyp else draw(st.integers(0, ntyp - 1)) for t in range(N)]
    types = list(draw(st.permutations(types)))
    style = draw(st.sampled_from(["spread", "clustered", "linear"]))
    if style == "spread":
        powers = [gen.r6(draw(gen.logfl(2e5, 8e6))) for _ in range(N)]
    elif style == "clustered":
        cen = [draw(gen.logfl(5e5, 8e6)) for _ in range(draw(st.integers(1, 5)))]
        powers = [gen.r6(draw(st.sampled_from(cen)) * (1 + draw(gen.fl(-0.03, 0.03)))) for _ in range(N)]
    else:
        lo = draw(gen.logfl(5e5, 3e6))
        stp = draw(gen.fl(0.01, 0.3))
        powers = [gen.r6(lo * (1 + stp * i)) for i in range(N)]
    ids = list(draw(st.permutations(list(range(N)))))
    t_in = gen.r6(draw(gen.fl(500.0, 700.0)))
    curves = []
    for t in range(ntyp):
        curves.append({"k1": gen.r6(draw(gen.fl(300.0, 1200.0))), "k2": gen.r6(draw(gen.fl(0.0, 300.0))),
                       "dp_c": gen.r6(draw(gen.logfl(50.0, 5000.0))), "dp_n": gen.r6(draw(gen.fl(1.6, 2.0)))})
    n_groups = draw(st.integers(1, min(6, N)))
    iters = []
    for _ in range(draw(st.integers(1, 4))):
        iters.append({"noise": [gen.r6(draw(gen.fl(0.85, 1.15))) for _ in range(draw(st.integers(1, 7)))],
                      "pscale": [1.0, gen.r6(draw(gen.fl(0.8, 1.2)))]})
    dp_limit = None
    dT_bulk = draw(gen.fl(50.0, 250.0))
    focus = N >= 4 and ntyp >= 2 and draw(st.integers(0, 3)) == 0
    if focus:
        # limit + regrouping class: types with clearly different pressure-drop curves, a limit a little above the pressure
        # drop of the average flow, several iterations with enough scatter in the synthetic sweep results to move assemblies
        # between groups (so that the membership on which a limit is evaluated changes between distribute() calls)
        for c in curves[1:]:
            c["dp_c"] = gen.r6(curves[0]["dp_c"] * draw(gen.fl(1.5, 8.0)))
        n_groups = draw(st.integers(2, min(4, N - 1)))
        iters = []
        for _ in range(draw(st.integers(2, 4))):
            iters.append({"noise": [gen.r6(draw(gen.fl(0.6, 1.4))) for _ in range(draw(st.integers(3, 7)))],
                          "pscale": [1.0, gen.r6(draw(gen.fl(0.8, 1.2)))]})
        m_avg = sum(powers) / 1275.0 / dT_bulk / N
        f = draw(gen.fl(1.02, 2.5))
        dp_limit = float("%.6g" % (max(c["dp_c"] * (m_avg * f) ** c["dp_n"] for c in curves) / 1e6))
    elif draw(st.integers(0, 2)) == 0:
        # (MPa) placed relative to the pressure drop at the average flow so that none, one or several groups are limited
        m_avg = sum(powers) / 1275.0 / dT_bulk / N
        f = draw(st.sampled_from([3.0, 2.0]) | gen.fl(0.7, 5.0))
        dp_limit = float("%.6g" % (min(c["dp_c"] * (m_avg * f) ** c["dp_n"] for c in curves) / 1e6))
    return {"ids": ids, "types": types, "powers": powers, "t_in": t_in, "t_bulk": gen.r6(t_in + dT_bulk),
            "curves": curves, "n_groups": n_groups, "cutoff": 0.05, "delta": 0.001,
            "opt": draw(st.sampled_from(["peak coolant temp", "peak clad MW temp", "peak clad ID temp", "peak fuel temp"])),
            "dp_limit": dp_limit, "regroup": draw(st.sampled_from(["once", "every"] if focus else ["never", "once", "every"])),
            "regroup_tol": gen.r6(draw(st.sampled_from([0.05, 0.0]) | gen.fl(0.0, 0.2))),
            "improve_tol": gen.r6(draw(st.sampled_from([0.05, 0.0]) | gen.fl(0.0, 0.1))),
            "timesteps": draw(st.integers(1, 2)), "iters": iters, "coolant": draw(st.sampled_from(["const", "sodium"])),
            "focus": "limit_and_regroup" if focus else "general"}


# ------------------------------------------------------------------------------------------------
def crash(o, e, prefix=""):
    """An unhandled exception: this property's subject if it is raised inside orificing.py."""
    if e.where.startswith("orificing.py"):
        o.fail("cannot_evaluate:%s@%s" % (e.exc_type, e.where), prefix + str(e)[:300])
    else:
        o.inconclusive = "crash_outside_orificing:%s@%s" % (e.exc_type, e.where)


def run_pipeline(spec):
    """The real chain on a generated core: Orificing(inp) -> group_by_power -> run_parametric (12 single-assembly sweeps per
    type) -> distribute -> run_dassh_orifice -> (regroup) -> distribute."""
    import contextlib
    import io
    import dassh
    import dassh.orificing
    import dassh.__main__          # (loaded by the dassh entry point in a real run; run_dassh_orifice uses it)
    o = Outcome()
    extra = spec["_orf"]
    sp = {k: v for k, v in spec.items() if k != "_orf"}
    grouped = sp["orificing"]["assemblies_to_group"]
    n = sp["orificing"]["n_groups"]
    pos = sorted(sp["_meta"]["pos"], key=lambda p: p["idx"])
    sid = [p["idx"] for p in pos if p["type"] in grouped]
    tp = [grouped.index(p["type"]) for p in pos if p["type"] in grouped]
    o.classes.update({"n_asm": len(sid), "n_groups": n, "n_types": len(grouped), "timepoints": len(sp["power"]["files"]),
                      "interleaved_types": tp != sorted(tp), "regroup": extra["regroup"], "opt": sp["orificing"]["value_to_optimize"]})
    with drive.Case(sp) as c:
        c.resolve_length()
        c.write()
        inp = c.read()
        sink = io.StringIO()

        def call(stage, f, *a):
            with contextlib.redirect_stdout(sink):
                return drive.guarded(stage, f, *a)
        try:
            orf = call("orificing_init", dassh.orificing.Orificing, inp)
            orf.orifice_input["regroup"] = extra["regroup"]
            call("group_by_power", orf.group_by_power)
        except drive.Rejected as e:
            o.inconclusive = "grouping_error"
            return o
        except drive.Crashed as e:
            crash(o, e)
            return o
        gd = np.asarray(orf.group_data, float)
        if not check_partition(o, gd, sid, n, "_initial"):
            return o
        check_order(o, gd, "_initial")
        try:
            call("run_parametric", orf.run_parametric)
        except drive.Rejected as e:
            o.inconclusive = "parametric_error"
            return o
        except drive.Crashed as e:
            crash(o, e)
            return o
        # distribute() looks assemblies up in the response data by row: row k must be the assembly of row k of the group
        # table, with its own type (otherwise limits and responses of another type are applied to it)
        ai = np.asarray(orf._parametric["asm_ids"])
        o.check(ai.shape == (len(sid), 2) and [int(x) for x in ai[:, 0]] == sid and [int(x) for x in ai[:, 1]] == tp,
                "response_lookup_not_aligned_with_group_table", "asm_ids %s, expected ids %s types %s" % (ai.tolist()[:8], sid[:8], tp[:8]))
        t_in = float(orf.t_in)
        dT_target = float(orf.orifice_input["bulk_coolant_temp"]) - t_in
        cool = orf.coolant
        cool.update(t_in + 0.5 * dT_target)
        cp_mean = float(cool.heat_capacity)
        cool.update(t_in)
        P = np.asarray(orf._power, float)
        o.check(P.shape == (len(sid), 2) and [int(x) for x in P[:, 0]] == sid, "power_table_ids", str(P[:, 0].tolist()[:10]))
        m_expected = float(np.sum(P[:, 1])) / cp_mean / dT_target
        dp_limit = None
        if extra["dp_f"] is not None:
            # a limit placed on the first type's curve relative to the average flow (MPa)
            d = orf._parametric["data"][0]
            idx = np.argsort(d[:, 2])
            dp_limit = float(np.interp(m_expected / len(sid) * extra["dp_f"], d[idx, 2], d[idx, 3])) / 1e6
            if not np.isfinite(dp_limit):
                # the parametric sweeps returned an undefined pressure drop (friction correlation far outside its range)
                o.inconclusive = "parametric_pressure_drop_undefined"
                return o
            orf.orifice_input["pressure_drop_limit"] = dp_limit
        o.classes["dp_limit"] = dp_limit is not None
        res_prev, t_out_prev = None, None
        done = 0
        for it in range(extra["iterations"]):
            if it >= 1 and extra["regroup"] != "never" and (extra["regroup"] == "every" or it == 1):
                try:
                    call("regroup", orf.regroup, res_prev)
                except drive.Rejected:
                    o.classes["stopped"] = "regroup_error"
                    break
                except drive.Crashed as e:
                    crash(o, e, "iteration %d: " % (it + 1))
                    break
                if not check_partition(o, np.asarray(orf.group_data, float), sid, n, "_after_regroup"):
                    break
            try:
                m, tlim = call("distribute", orf.distribute, res_prev, t_out_prev)
            except drive.Rejected as e:
                msg = str(e)
                o.classes["stopped"] = "error:" + msg.split(":")[-1].strip()[:40]
                if "not conserved" in msg:
                    o.fail("flow_not_conserved_reported", "iteration %d: %s" % (it + 1, msg[:200]))
                break
            except drive.Crashed as e:
                crash(o, e, "iteration %d: " % (it + 1))
                break
            m = np.asarray(m, float)
            if not check_distribution(o, orf, m, n, sid, tp, m_expected, dp_limit, "_iter%d" % min(it + 1, 2)):
                break
            done += 1
            if np.any(orf._dp_limit) or bool(np.any(m <= 0)) or it + 1 == extra["iterations"]:
                break
            try:
                res_prev = call("run_dassh_orifice", orf.run_dassh_orifice, it + 1, m)
                summ = call("summarize", orf._summarize_group_data, res_prev)
            except drive.Rejected as e:
                o.classes["stopped"] = "sweep_error"
                break
            except drive.Crashed as e:
                crash(o, e, "iteration %d: " % (it + 1))
                break
            # the sweep was run with the distributed flows
            first = res_prev[res_prev[:, 0] == res_prev[0, 0]]
            o.check(first.shape[0] == len(sid) and bool(np.allclose(first[np.argsort(first[:, 1]), 3], m, rtol=1e-9, atol=0)),
                    "sweep_not_run_with_distributed_flows", "flows in the results: %s" % first[:, 3].tolist()[:8])
            t_out_prev = float(summ[-1, 0])
            m_expected = float(np.sum(m)) * (t_out_prev - t_in) / dT_target
        o.classes["distributions_done"] = done
        o.nontrivial = done >= 1 and n > 1
    return o


@st.composite
def pipeline_specs(draw, q):
    spec = draw(gen.core_spec(core_rings=(2, 2), n_types=(1, 3), rings=(2, 3), ducts=(1, 1), gap_models=("none", "no_flow", "flow"),
                              regimes=("tur",), n_steps=(5, 9), lowfi=False, regions=False, max_cells=2, byp_frac=(0.03, 0.3),
                              comps=("pins", "duct", "cool")))
    # assemblies of one type share the axial power cells and the shape (run_parametric averages their profiles)
    pf = spec["power"]["files"][0]
    first = {}
    for p in sorted(spec["_meta"]["pos"], key=lambda x: x["idx"]):
        key = str(p["idx"] + 1)
        if p["type"] not in first:
            first[p["type"]] = pf[key]
        else:
            import copy
            ap = copy.deepcopy(first[p["type"]])
            f = draw(st.sampled_from([1.0, 0.5]) | gen.fl(0.2, 1.5).map(gen.r6))
            for comp in ("pins", "duct", "cool"):
                if comp in ap:
                    ap[comp]["base"] = [[b * f for b in cell] for cell in ap[comp]["base"]]
            pf[key] = ap
    spec["power"]["total_power"] = None
    if draw(st.booleans()):
        import copy
        pf2 = copy.deepcopy(pf)
        f2 = gen.r6(draw(gen.fl(0.7, 1.3)))
        for ap in pf2.values():
            for comp in ("pins", "duct", "cool"):
                if comp in ap:
                    ap[comp]["base"] = [[b * f2 for b in cell] for cell in ap[comp]["base"]]
        spec["power"]["files"].append(pf2)
    present = sorted(set(p["type"] for p in spec["_meta"]["pos"]))
    grouped = draw(st.lists(st.sampled_from(present), min_size=1, max_size=len(present), unique=True))
    grouped = list(draw(st.permutations(grouped)))
    n_asm = sum(1 for p in spec["_meta"]["pos"] if p["type"] in grouped)
    t_in = spec["core"]["coolant_inlet_temp"]
    spec["orificing"] = {"assemblies_to_group": grouped, "n_groups": draw(st.integers(1, max(1, min(4, n_asm)))),
                         "value_to_optimize": "peak coolant temp", "bulk_coolant_temp": gen.r6(t_in + draw(gen.fl(60.0, 200.0))),
                         "iteration_limit": 3}
    spec["_orf"] = {"regroup": draw(st.sampled_from(["never", "once", "every"])), "iterations": draw(st.integers(1, 3)),
                    "dp_f": draw(st.none() | st.sampled_from([3.0]) | gen.fl(0.8, 4.0).map(gen.r6))}
    return spec


def parts(tier):
    q = tier == "quick"
    return [
        Part("grouping", run_grouping, strategy=grouping_specs(q), examples=1200 if q else 60000, timeout=60),
        Part("histories", run_history, strategy=history_specs(q), examples=800 if q else 40000, timeout=60),
        Part("pipeline", run_pipeline, strategy=pipeline_specs(q), examples=64 if q else 1500, timeout=240),
    ]

"""C16 - runs are repeatable: setup never mutates the input, serial = parallel."""
import copy
import glob
import os
import re
import subprocess
import sys

import numpy as np
from hypothesis import strategies as st

from .. import build, drive, env, gen, observe
from ..runner import Outcome, Part

ID = "C16"
TITLE = "Runs are repeatable: setup never mutates the input, serial = parallel"
TECHNIQUE = "property-based testing (Hypothesis): generated construction histories Reactor^k from one parsed input with a deep type-and-value audit of the input after every construction; generated multi-time-point problems executed by dassh.__main__ serially, in a worker pool (1-4 workers) and one time point at a time, outputs compared file by file; construction histories with temperature-dependent coolants and lazy correlation updates, state of the input's Material objects compared before / after"
RULE = ("construction_history: generated inputs (Fuel-/PinModel, hot-spot requests, assembly tables, multi-region) built 2-3 times "
        "from one DASSH_Input object, input audited after each construction, every model swept and compared bitwise; "
        "serial_parallel: generated problems with 1-4 time points (different user power files) run through the real "
        "command-line entry point in separate processes with parallel off / on (n_cpu 1-4) / one time point at a time.  "
        "Non-trivial: the input has a pin or fuel model (history part) or >= 2 time points (execution part); distinct = spec hash")
ASSUMPTIONS = ["worker interleavings inside multiprocessing.Pool cannot be controlled: worker count, time-point count and order are "
               "varied and outcomes compared (detects shared-state and ordering defects, does not enumerate schedules)",
               "output files are compared byte for byte after masking wall-clock stamps and absolute paths"]
LEVEL_NOTE = "bitwise equality of temperatures between constructions and of output files between execution modes"


def freeze(x, path=()):
    """Canonical (type, value) description of the parsed input."""
    if isinstance(x, dict):
        return ("dict", tuple((str(k), freeze(v, path + (k,))) for k, v in sorted(x.items(), key=lambda kv: str(kv[0]))))
    if isinstance(x, (list, tuple)):
        return (type(x).__name__, tuple(freeze(v, path) for v in x))
    if isinstance(x, np.ndarray):
        return ("ndarray", x.shape, x.tobytes())
    if isinstance(x, (str, bool, int, float, type(None), np.integer, np.floating)):
        return (type(x).__name__, repr(x))
    return ("object:" + type(x).__name__, getattr(x, "name", ""))


def all_diffs(a, b, path="", out=None):
    """All leaf differences (path, description)."""
    if out is None:
        out = []
    if a == b or len(out) > 20:
        return out
    if a[0] != b[0]:
        out.append((path, "type %s became %s" % (a[0], b[0])))
        return out
    if a[0] == "dict":
        da, db = dict(a[1]), dict(b[1])
        for k in sorted(set(da) | set(db)):
            if k not in da:
                out.append((path + "/" + k, "key added"))
            elif k not in db:
                out.append((path + "/" + k, "key removed"))
            else:
                all_diffs(da[k], db[k], path + "/" + k, out)
        return out
    if a[0] in ("list", "tuple"):
        if len(a[1]) != len(b[1]):
            out.append((path, "length %d became %d" % (len(a[1]), len(b[1]))))
            return out
        for i, (x, y) in enumerate(zip(a[1], b[1])):
            all_diffs(x, y, path + "[]", out)
        return out
    out.append((path, "%s became %s" % (str(a[1])[:50], str(b[1])[:50])))
    return out


def first_diff(a, b, path=""):
    if a == b:
        return None
    if a[0] != b[0]:
        return "%s: type %s became %s" % (path, a[0], b[0])
    if a[0] == "dict":
        da, db = dict(a[1]), dict(b[1])
        for k in sorted(set(da) | set(db)):
            if k not in da:
                return "%s/%s: key added" % (path, k)
            if k not in db:
                return "%s/%s: key removed" % (path, k)
            d = first_diff(da[k], db[k], path + "/" + k)
            if d:
                return d
    if a[0] in ("list", "tuple"):
        if len(a[1]) != len(b[1]):
            return "%s: length %d became %d" % (path, len(a[1]), len(b[1]))
        for i, (x, y) in enumerate(zip(a[1], b[1])):
            d = first_diff(x, y, "%s[%d]" % (path, i))
            if d:
                return d
    return "%s: %s became %s" % (path, str(a[1])[:60], str(b[1])[:60])


def result_digest(r):
    out = []
    for a in r.assemblies:
        reg = a.active_region
        out.append(reg.temp["coolant_int"].tobytes())
        out.append(reg.temp["duct_mw"].tobytes())
        if hasattr(reg, "pin_temps"):
            out.append(reg.pin_temps.tobytes())
        out.append(repr(a._peak))
        out.append(repr(float(a.pressure_drop)))
    if r.core.model is not None:
        out.append(r.core.coolant_gap_temp.tobytes())
    return out


def run_history(spec):
    o = Outcome()
    k = spec["_builds"]
    with drive.Case(spec) as c:
        c.resolve_length()
        c.write()
        inp = c.read()
        base = freeze(inp.data)

        def mat_state():
            out = {}
            for name, m_ in sorted(getattr(inp, "materials", {}).items()):
                out[name] = tuple(repr(getattr(m_, at, None)) for at in
                                  ("temperature", "density", "viscosity", "heat_capacity", "thermal_conductivity"))
            return out
        mats0 = mat_state()
        digests = []
        for i in range(k):
            try:
                r = c.make_reactor(inp, write_output=bool(spec.get("_write_output")))
            except drive.Crashed as e:
                o.fail("construction_%d_fails:%s@%s" % (i + 1, e.exc_type, e.where), str(e)[:300])
                break
            now = freeze(inp.data)
            for pth, what in all_diffs(base, now):
                parts_ = pth.split("/")
                if len(parts_) > 2 and parts_[1] == "Assembly":
                    parts_[2] = "*"
                o.fail("input_mutated_by_setup:" + "/".join(parts_), "after construction %d: %s %s" % (i + 1, pth, what))
            base = now      # report every mutation once, keep looking for further ones
            o.checks += 1
            drive.sweep(r)
            if spec.get("_write_output"):
                drive.guarded("postprocess", r.postprocess)
                d = first_diff(base, freeze(inp.data))
                if d:
                    o.fail("input_mutated_by_postprocess", "after run %d: %s" % (i + 1, d))
                    break
            digests.append(result_digest(r))
            mats1 = mat_state()
            for name in mats0:
                if mats1.get(name) != mats0[name]:
                    o.fail("input_material_state_changed", "after build and sweep %d: material %s %s -> %s"
                           % (i + 1, name, mats0[name][:2], mats1.get(name, ())[:2]))
            mats0 = mats1
            o.checks += 1
        for i in range(1, len(digests)):
            o.check(digests[i] == digests[0], "model_%d_differs_from_first" % (i + 1),
                    "results of construction %d are not bitwise those of construction 1" % (i + 1))
        has_pm = any(("FuelModel" in a or "PinModel" in a) for a in spec["assemblies"].values())
        o.classes.update({"builds": k, "pin_model": has_pm, "normalised": spec["power"].get("total_power") is not None,
                          "scaled": spec["power"].get("scaling") is not None,
                          "hotspot": any("Hotspot" in a for a in spec["assemblies"].values())})
        o.nontrivial = has_pm and len(digests) == k
    return o


_STAMP = re.compile(r"\d{1,2}[-/ ][A-Za-z0-9]{2,3}[-/ ]\d{2,4}|\d{1,2}:\d{2}(:\d{2})?|/tmp/\S+|/[^\s]*vf_[^\s]*")


def normalise(path):
    with open(path, "rb") as f:
        raw = f.read()
    try:
        txt = raw.decode()
    except UnicodeDecodeError:
        return raw
    lines = []
    for line in txt.splitlines():
        if "elapsed" in line.lower() or "execution time" in line.lower() or line.strip().startswith("Executed"):
            continue
        lines.append(_STAMP.sub("<stamp>", line))
    return "\n".join(lines)


def collect(directory):
    out = {}
    for p in sorted(glob.glob(os.path.join(directory, "**", "*"), recursive=True)):
        if os.path.isfile(p):
            rel = os.path.relpath(p, directory)
            if rel.endswith((".log", ".pkl")) or rel.startswith(("power_", "input")):
                continue
            out[rel] = normalise(p)
    return out


def execute(spec, workdir):
    """Run the real command-line entry point on the spec in a separate process."""
    os.makedirs(workdir, exist_ok=True)
    path = build.write(spec, workdir)
    code = ("import sys; sys.path.insert(0, %r); import dassh, dassh.__main__ as m; "
            "assert dassh.__file__.startswith(%r); m.main([%r])" % (env.REPO, env.REPO, path))
    try:
        p = subprocess.run(["/venv/bin/python", "-c", code], cwd=workdir, stdout=subprocess.PIPE, stderr=subprocess.STDOUT,
                           text=True, timeout=150, env=dict(os.environ, MPLBACKEND="Agg", OMP_NUM_THREADS="1"),
                           start_new_session=True)
    except subprocess.TimeoutExpired as e:
        subprocess.run("pkill -f %s" % workdir, shell=True)
        return -9, "TIMEOUT after 150 s (single time points of this problem take seconds)\n" + str(e.stdout or "")[-800:]
    return p.returncode, p.stdout[-1500:]


def run_execution(spec):
    o = Outcome()
    ntp = len(spec["power"]["files"])
    with drive.Case(spec) as c:
        c.resolve_length()
        base = copy.deepcopy(c.spec)
        root = c.dir
        modes = {}
        serial = copy.deepcopy(base)
        serial["setup"]["parallel"] = False
        modes["serial"] = serial
        if ntp > 1:
            par = copy.deepcopy(base)
            par["setup"]["parallel"] = True
            par["setup"]["n_cpu"] = spec["_ncpu"]
            modes["parallel"] = par
        results = {}
        status = {}

        def classify(rc, out):
            if rc == 0:
                return "ok"
            if rc == -9:
                return "hang"
            return "crash" if "Traceback (most recent call last)" in out else "error"
        for name, sp in modes.items():
            rc, out = execute(sp, os.path.join(root, name))
            status[name] = classify(rc, out)
            # (an unhandled exception that every execution mode raises alike is not a repeatability matter; a hang is)
            if status[name] == "hang":
                o.fail("execution_hangs_%s" % name, "exit %s: %s" % (rc, out[-400:]))
            if status[name] == "crash":
                o.classes["crash_seen"] = out.strip().splitlines()[-1][:60] if out.strip() else "?"
            if rc == 0:
                results[name] = collect(os.path.join(root, name))
        # one time point at a time
        singles = {}
        ok_single = True
        for t in range(ntp):
            sp = copy.deepcopy(base)
            sp["setup"]["parallel"] = False
            sp["power"]["files"] = [copy.deepcopy(base["power"]["files"][t])]
            rc, out = execute(sp, os.path.join(root, "single_%d" % t))
            stt = classify(rc, out)
            status.setdefault("single", []).append(stt)
            if rc != 0:
                ok_single = False
                continue
            files = collect(os.path.join(root, "single_%d" % t))
            for rel, content in files.items():
                key = rel if ntp == 1 else os.path.join("timestep_%d" % (t + 1), rel)
                singles[key] = content
        if ok_single:
            results["one_at_a_time"] = singles
        # a documented error (logged message, exit 1) must be reported the same way by every execution mode
        single_ok = all(x == "ok" for x in status.get("single", []))
        for name in ("serial", "parallel"):
            if name in status:
                o.check((status[name] == "ok") == single_ok, "execution_outcome_differs_%s_vs_one_at_a_time" % name,
                        "%s: %s, one at a time: %s" % (name, status[name], status.get("single")))
        if not single_ok and not o.violations:
            o.inconclusive = "crash_in_all_modes" if "crash_seen" in o.classes else "documented_error_in_all_modes"
            return o
        ref = results.get("serial")
        if ref is not None:
            o.check(len(ref) > 0, "no_output_files")
            if ntp > 1:
                dirs = set(os.path.dirname(k) for k in ref)
                o.check(all(("timestep_%d" % (t + 1)) in dirs for t in range(ntp)), "time_point_directory_missing", str(sorted(dirs)))
            for name, files in results.items():
                if name == "serial":
                    continue
                keys = set(k for k in ref if not k.endswith("dassh.log"))
                other = set(files)
                o.check(keys == other, "output_file_set_differs_" + name, "only serial: %s only %s: %s"
                        % (sorted(keys - other)[:4], name, sorted(other - keys)[:4]))
                for k in sorted(keys & other):
                    o.checks += 1
                    if ref[k] != files[k]:
                        o.fail("output_differs_%s_vs_serial" % name, "file %s" % k)
                        break
        o.classes.update({"time_points": ntp, "n_cpu": spec["_ncpu"], "modes": ",".join(sorted(results)),
                          "pin_model": any(("FuelModel" in a or "PinModel" in a) for a in spec["assemblies"].values())})
        o.nontrivial = ntp >= 2 and len(results) >= 2
    return o


def with_models(draw, spec, p_model=2):
    for name, a in spec["assemblies"].items():
        if a.get("use_low_fidelity_model"):
            continue
        k = draw(st.integers(0, p_model))
        if k == 1:
            gen.attach_pin_model(spec, name, draw(gen.fuel_model()), fuel=True)
        elif k == 2:
            pm, mats = draw(gen.pin_model())
            mats = {"%s_%s" % (name.lower(), kk): v for kk, v in mats.items()}
            pm["pin_material"] = ["%s_%s" % (name.lower(), kk) for kk in pm["pin_material"]]
            gen.attach_pin_model(spec, name, pm, mats, fuel=False)
        if ("FuelModel" in a or "PinModel" in a) and draw(st.booleans()):
            a["Hotspot"] = {"hs1": {"temperature": draw(st.sampled_from(["clad_mw", "fuel_cl", "coolant"])),
                                    "subfactors": draw(st.sampled_from(["CRBR_FUEL", "FFTF"])) if False else None,
                                    "input_sigma": 3, "output_sigma": 2}}
            a.pop("Hotspot")        # built-in tables are exercised by C19
    return spec


@st.composite
def history_cases(draw, q):
    spec = draw(gen.core_spec(core_rings=(1, 2), n_types=(1, 2), rings=(2, 3), ducts=(1, 2), gap_models=("flow", "none", "no_flow"),
                              regimes=("lam", "tra", "tur"), n_steps=(10, 25), lowfi=True, regions=True, max_cells=2,
                              byp_frac=(0.02, 0.3), coolant=draw(st.sampled_from(["const", ["sodium", "nak"]])),
                              dT=(20.0, 120.0), bc_kinds=("FLOWRATE", "OUTLET_TEMP", "DELTA_TEMP")))
    spec = with_models(draw, spec)
    if spec["core"]["coolant_material"] != "cool_c" and draw(st.booleans()):
        spec["setup"]["param_update_tol"] = gen.r6(draw(gen.logfl(1e-3, 0.1)))
    if draw(st.booleans()):
        spec["setup"]["axial_plane_frac"] = [round(draw(gen.fl(0.05, 0.95)), 3) for _ in range(draw(st.integers(1, 3)))]
    # normalisation and scaling options (the requested core power absent / given, scaling factor absent / given)
    if draw(st.booleans()):
        spec["power"]["total_power"] = None
    if draw(st.booleans()):
        spec["power"]["scaling"] = gen.r6(draw(gen.fl(0.2, 2.5)))
    spec["_builds"] = draw(st.integers(2, 3))
    spec["_write_output"] = draw(st.booleans())
    return spec


@st.composite
def execution_cases(draw, q):
    spec = draw(gen.core_spec(core_rings=(1, 2), n_types=(1, 2), rings=(2, 3), ducts=(1, 2), gap_models=("flow", "none"),
                              regimes=("tra", "tur"), n_steps=(10, 20), lowfi=True, regions=False, max_cells=2,
                              byp_frac=(0.03, 0.3), dT=(20.0, 100.0), bc_kinds=("FLOWRATE", "OUTLET_TEMP", "DELTA_TEMP")))
    spec = with_models(draw, spec)
    if draw(st.booleans()):
        spec["setup"]["axial_plane_frac"] = [round(draw(gen.fl(0.05, 0.95)), 3) for _ in range(draw(st.integers(1, 3)))]
    ntp = draw(st.integers(1, 3 if q else 4))
    base = spec["power"]["files"][0]
    files = [base]
    for t in range(1, ntp):
        f = copy.deepcopy(base)
        sc = gen.r6(draw(gen.fl(0.4, 1.6)))
        for ap in f.values():
            for key in ("pins", "duct", "cool"):
                if key in ap:
                    ap[key]["base"] = [[x * sc for x in row] for row in ap[key]["base"]]
        if draw(st.booleans()):
            # other axial power-cell boundaries at this time point (same number of cells)
            for ap in f.values():
                zf = ap["zb_frac"]
                if len(zf) > 2:
                    inner = sorted(round(draw(gen.fl(0.1, 0.9)), 3) for _ in range(len(zf) - 2))
                    if all(b_ - a_ > 0.02 for a_, b_ in zip([0.0] + inner, inner + [1.0])):
                        ap["zb_frac"] = [0.0] + inner + [1.0]
        files.append(f)
    spec["power"]["files"] = files
    spec["power"]["total_power"] = None
    if draw(st.booleans()):
        spec["power"]["scaling"] = gen.r6(draw(gen.fl(0.2, 2.5)))
    spec["setup"]["dump"] = {"coolant": True, "average": True, "interval": None}
    spec["_ncpu"] = draw(st.integers(1, 4))
    return spec


def parts(tier):
    q = tier == "quick"
    return [
        Part("construction_history", run_history, strategy=history_cases(q), examples=48 if q else 1500, timeout=180),
        Part("serial_parallel", run_execution, strategy=execution_cases(q), examples=16 if q else 300, timeout=900),
    ]

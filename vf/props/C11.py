"""C11 - duct-wall temperatures solve steady 1-D conduction with the stated BCs."""
import math

import numpy as np
from hypothesis import strategies as st

from .. import drive, gen, geom
from ..runner import Outcome, Part

ID = "C11"
TITLE = "Duct-wall temperatures solve steady 1-D conduction with the stated BCs"
TECHNIQUE = "property-based testing (Hypothesis): the real _calc_duct_temp of rodded and low-fidelity regions driven with generated film coefficients, coolant / bypass / gap temperatures and wall heating; the reported surface and mid-wall temperatures are checked against the conduction equation, flux continuity and the overall flux balance; the stored wall state of generated adiabatic sweeps is checked against the zero-flux solution at every step"
RULE = ("regions come from real generated assemblies (2-5 rings, 1-3 ducts of unequal thickness, low-fidelity simple / "
        "6node regions, constant or T-dependent duct material); the state handed to _calc_duct_temp is generated: film "
        "coefficients 1e2..1e6 per subchannel type and per bypass gap, non-uniform coolant, bypass and gap temperatures, "
        "wall heating >= 0 per cell, adiabatic flag.  Non-trivial: non-uniform temperatures on both sides and (heating > 0 or "
        ">= 2 ducts or low-fidelity); distinct = spec hash")
ASSUMPTIONS = ["wall thickness, cell widths and heated area come from vf/geom.py / the input flat-to-flat list, not from the region",
               "conductivity is the material's own k(T) at the pre-call average mid-wall temperature of that duct"]
LEVEL_NOTE = "all identities to 1e-9 relative of the flux / temperature scale"

TOL = 1e-9


def field(n, T0, amp, phase, freq):
    return T0 + amp * (1.0 + np.sin(phase + freq * np.arange(n)))


def run(spec):
    o = Outcome()
    st_ = spec["_state"]
    with drive.Case(spec) as c:
        r = c.setup()
        asm = r.assemblies[0]
        r.axial_step0()
        a = spec["assemblies"]["A"]
        m = spec["_meta"]["A"]
        ftf = sorted(a["duct_ftf"])
        # advance to the requested region (regions are activated by the sweep itself)
        want = st_["region"] % len(asm.region)
        i = 1
        while asm.active_region_idx != want and i < len(r.z):
            r.axial_step(r.z[i], r.dz[i - 1], i)
            i += 1
        reg = asm.active_region
        T0 = float(spec["core"]["coolant_inlet_temp"])
        adiabatic = bool(st_["adiabatic"])
        ncell = reg.temp["duct_mw"].shape[1]
        tg = field(ncell, T0, st_["amp_gap"], st_["ph"][0], st_["fr"][0])
        hg = np.array([10 ** st_["loghg"][k % len(st_["loghg"])] for k in range(ncell)])
        duct = reg.duct
        kfun = duct._data["thermal_conductivity"]
        if reg.is_rodded:
            nd = reg.n_duct
            reg.temp["coolant_int"][:] = field(reg.temp["coolant_int"].size, T0, st_["amp_int"], st_["ph"][1], st_["fr"][1])
            reg.coolant_int_params["htc"] = np.array([10 ** x for x in st_["logh_int"]])
            if nd > 1:
                for b in range(nd - 1):
                    reg.temp["coolant_byp"][b, :] = field(ncell, T0, st_["amp_byp"], st_["ph"][2] + b, st_["fr"][2])
                    reg.coolant_byp_params["htc"][b] = [10 ** st_["logh_byp"][(2 * b) % 6], 10 ** st_["logh_byp"][(2 * b + 1) % 6]]
            # previous mid-wall state decides k(T)
            for d in range(nd):
                reg.temp["duct_mw"][d, :] = field(ncell, T0, st_["amp_mw"], st_["ph"][3] + d, st_["fr"][3])
            k_pre = [float(kfun(t)) for t in reg.avg_duct_mw_temp]
            p = np.zeros(nd * ncell)
            if st_["heat"] > 0:
                p = st_["heat"] * (1.0 + np.sin(0.3 + 0.9 * np.arange(nd * ncell)))
            Tc_int = reg.temp["coolant_int"][reg.subchannel.n_sc["coolant"]["interior"]:].copy()
            Tbyp = reg.temp["coolant_byp"].copy() if nd > 1 else None
            h_int = reg.coolant_int_params["htc"][1:][reg._duct_idx].copy()
            h_byp = [reg.coolant_byp_params["htc"][b][reg._duct_idx].copy() for b in range(nd - 1)]
            drive.guarded("duct", reg._calc_duct_temp, p.copy(), tg.copy(), hg.copy(), adiabatic)
            typ = reg._duct_idx      # 0 edge, 1 corner
            P, n = m["P"], m["n_ring"]
            worst = 0.0
            for d in range(nd):
                t = 0.5 * (ftf[2 * d + 1] - ftf[2 * d])
                wc_out = (0.5 * ftf[2 * d + 1] - 0.5 * geom.SQ3 * (n - 1) * P) / geom.SQ3   # half corner length, outer face
                w = np.where(typ == 0, P, 2.0 * wc_out)
                q3 = p[d * ncell:(d + 1) * ncell] / (t * w)
                if d == 0:
                    Tin, hin = Tc_int, h_int
                else:
                    Tin, hin = Tbyp[d - 1], h_byp[d - 1]
                last = d == nd - 1
                if last:
                    Tout, hout = tg, hg
                else:
                    Tout, hout = Tbyp[d], h_byp[d]
                worst = max(worst, check_slab(o, reg.temp["duct_surf"][d, 0], reg.temp["duct_mw"][d], reg.temp["duct_surf"][d, 1],
                                              Tin, hin, Tout, hout, q3, t, k_pre[d], adiabatic and last, "duct%d" % d))
            kind = "rodded"
        else:
            nd = 1
            nnode = reg.temp["coolant_int"].size
            reg.temp["coolant_int"][:] = field(nnode, T0, st_["amp_int"], st_["ph"][1], st_["fr"][1])
            reg.coolant_params["htc"] = 10 ** st_["logh_int"][0]
            reg.temp["duct_mw"][0, :] = field(ncell, T0, st_["amp_mw"], st_["ph"][3], st_["fr"][3])
            k_pre = float(kfun(reg.avg_duct_mw_temp[0]))
            Tin = reg.temp["coolant_int"].copy() if nnode == ncell else np.full(ncell, reg.temp["coolant_int"][0])
            hin = np.full(ncell, reg.coolant_params["htc"])
            drive.guarded("duct", reg._calc_duct_temp, tg.copy(), hg.copy(), adiabatic)
            t = 0.5 * (ftf[-1] - ftf[-2])
            worst = check_slab(o, reg.temp["duct_surf"][0, 0], reg.temp["duct_mw"][0], reg.temp["duct_surf"][0, 1],
                               Tin, hin, tg, hg, np.zeros(ncell), t, k_pre, adiabatic, "lowfi")
            kind = reg.model
        o.metric("worst_residual_rel", worst)
        o.classes.update({"kind": kind, "n_duct_region": nd, "n_duct_asm": m["n_duct"], "adiabatic": adiabatic,
                          "heated": st_["heat"] > 0 and kind == "rodded", "duct_material": a["duct_material"]})
        nonuniform = st_["amp_int"] > 0 and (st_["amp_gap"] > 0 or adiabatic)
        o.nontrivial = nonuniform and (o.classes["heated"] or nd >= 2 or kind != "rodded")
    return o


def check_slab(o, Tsi, Tmw, Tso, Tin, hin, Tout, hout, q3, t, k, adiabatic, tag):
    """T'' = -q'''/k through the three reported points; film-flux continuity; overall balance; ordering."""
    half = 0.5 * t
    Tscale = max(float(np.max(np.abs(Tin - (Tin if adiabatic else Tout)))), float(np.max(q3)) * t * (1.0 / float(np.min(hin)) + t / k), 1e-6)
    # curvature
    curv = (Tsi - 2.0 * Tmw + Tso) / (half * half)
    e1 = float(np.max(np.abs(curv + q3 / k))) * half * half / Tscale
    o.check(e1 <= TOL * 10, tag + "_conduction_equation", "curvature residual %.3e of the temperature scale" % e1)
    slope_mid = (Tso - Tsi) / t
    g_in = slope_mid - curv * half      # dT/dx at the inner surface
    g_out = slope_mid + curv * half     # dT/dx at the outer surface
    f_in = hin * (Tin - Tsi)            # flux entering the wall from the inner coolant
    fscale = max(float(np.max(np.abs(f_in))), float(np.max(q3)) * t, 1e-9)
    # absolute floor: a film flux h (T_a - T_b) of two temperatures ~T carries a round-off of ~1e-13 T h (and k/t likewise)
    Tabs = float(np.max(np.abs(Tsi)))
    hmax = max(float(np.max(hin)), 0.0 if adiabatic else float(np.max(hout)), 4.0 * k / t)
    floor = 2e-12 * Tabs * hmax
    e2 = float(np.max(np.abs(f_in + k * g_in)))
    o.check(e2 <= TOL * 100 * fscale + floor, tag + "_inner_flux_continuity", "%.3e of the flux scale" % (e2 / fscale))
    if adiabatic:
        e3 = float(np.max(np.abs(k * g_out)))
        o.check(e3 <= TOL * 100 * fscale + floor, tag + "_adiabatic_outer_gradient", "%.3e of the flux scale" % (e3 / fscale))
        bal = f_in + q3 * t
    else:
        f_out = hout * (Tso - Tout)
        fscale = max(fscale, float(np.max(np.abs(f_out))))
        e3 = float(np.max(np.abs(f_out + k * g_out)))
        o.check(e3 <= TOL * 100 * fscale + floor, tag + "_outer_flux_continuity", "%.3e of the flux scale" % (e3 / fscale))
        bal = f_in + q3 * t - f_out
    e4 = float(np.max(np.abs(bal)))
    o.check(e4 <= TOL * 100 * fscale + floor, tag + "_flux_balance", "in + generated - out = %.3e of the flux scale" % (e4 / fscale))
    e2, e3, e4 = e2 / fscale, e3 / fscale, e4 / fscale
    if not np.any(q3 > 0):
        lo = np.minimum(Tin, Tin if adiabatic else Tout) - 1e-9
        hi = np.maximum(Tin, Tin if adiabatic else Tout) + 1e-9
        okb = np.all((Tsi >= lo) & (Tsi <= hi) & (Tmw >= lo) & (Tmw <= hi) & (Tso >= lo) & (Tso <= hi))
        sgn = np.sign((Tin if adiabatic else Tout) - Tin)
        mono = np.all(sgn * (Tmw - Tsi) >= -1e-9) and np.all(sgn * (Tso - Tmw) >= -1e-9)
        o.check(bool(okb) and bool(mono), tag + "_unheated_ordering")
    return max(e1, e2, e3, e4)


@st.composite
def cases(draw, q):
    tdep = draw(st.booleans())
    spec = draw(gen.single_assembly(rings=(2, 4) if q else (2, 6), ducts=(1, 3), n_steps=(10, 30),
                                    gap_model=draw(st.sampled_from(["flow", "none"])), regimes=("lam", "tra", "tur"),
                                    regions=True, lowfi=True, duct_const=not tdep, dT=(5.0, 60.0)))
    f = gen.fl
    heat_on = draw(st.booleans())
    spec["_state"] = {
        "region": draw(st.integers(0, 2)), "adiabatic": draw(st.integers(0, 3)) == 0,
        "amp_gap": gen.r6(draw(f(0.0, 80.0))), "amp_int": gen.r6(draw(f(0.5, 150.0))), "amp_byp": gen.r6(draw(f(0.0, 100.0))),
        "amp_mw": gen.r6(draw(f(0.0, 100.0))),
        "ph": [gen.r6(draw(f(0.0, 6.28))) for _ in range(4)], "fr": [gen.r6(draw(f(0.05, 2.5))) for _ in range(4)],
        "loghg": [gen.r6(draw(f(2.0, 6.0))) for _ in range(3)],
        "logh_int": [gen.r6(draw(f(2.0, 6.0))) for _ in range(3)],
        "logh_byp": [gen.r6(draw(f(2.0, 6.0))) for _ in range(6)],
        "heat": gen.r6(draw(gen.logfl(1.0, 1e5))) if heat_on else 0.0}
    return spec


def adjacent_coolant(reg):
    """Coolant temperature facing the inner surface of the outermost duct, one value per duct cell."""
    if reg.is_rodded:
        if reg.n_duct > 1:
            return np.array(reg.temp["coolant_byp"][-1], float).copy()
        return np.array(reg.temp["coolant_int"][reg.subchannel.n_sc["coolant"]["interior"]:], float).copy()
    t = np.array(reg.temp["coolant_int"], float).ravel()
    n = reg.temp["duct_mw"].shape[1]
    return t.copy() if t.size == n else np.full(n, t[0])


def run_swept(spec):
    """The stored wall state of a real sweep: with the adiabatic option and no wall heating the outer flux is zero, hence
    the inner flux is zero and the outermost wall (both surfaces, mid-wall) is at the temperature of the coolant next to
    it - of the level the wall was solved with (previous level for pin bundles, new level for the low-fidelity models)."""
    o = Outcome()
    with drive.Case(spec) as c:
        r = c.setup()
        asm = r.assemblies[0]
        prev = {}
        seen = set()
        worst = [0.0]
        rise = [0.0]
        T0 = float(spec["core"]["coolant_inlet_temp"])

        def before(i, z, dz):
            prev["adj"] = adjacent_coolant(asm.active_region)

        def after(i, z, dz, regs):
            reg = regs[0]
            old, new = prev["adj"], adjacent_coolant(reg)
            kind = "rodded" if reg.is_rodded else reg.model
            seen.add(kind)
            rise[0] = max(rise[0], float(np.max(np.abs(new - T0))))
            d = reg.temp["duct_mw"].shape[0] - 1
            for name, T in (("inner_surface", reg.temp["duct_surf"][d, 0]), ("mid_wall", reg.temp["duct_mw"][d]),
                            ("outer_surface", reg.temp["duct_surf"][d, 1])):
                T = np.array(T, float)
                e_old, e_new = float(np.max(np.abs(T - old))), float(np.max(np.abs(T - new)))
                e = min(e_old, e_new)
                worst[0] = max(worst[0], e)
                o.check(e <= 1e-8, "swept_adiabatic_wall_not_at_coolant_temperature_" + kind,
                        "step %d z=%.6f %s: differs from the adjacent coolant by %.3e K (previous level) / %.3e K (new level)"
                        % (i, z, name, e_old, e_new))
        drive.sweep(r, before, after)
        o.metric("swept_wall_dev_K", worst[0])
        o.classes.update({"swept_kinds": "+".join(sorted(seen)), "regions": len(asm.region)})
        o.nontrivial = rise[0] > 1.0
    return o


@st.composite
def swept_cases(draw, q):
    spec = draw(gen.single_assembly(rings=(2, 3) if q else (2, 5), ducts=(1, 3), n_steps=(15, 40), gap_model="none",
                                    regimes=("lam", "tra", "tur"), regions=True, lowfi=True, duct_const=draw(st.booleans()),
                                    dT=(10.0, 150.0), comps=draw(st.sampled_from([("pins",), ("pins", "cool"), ("cool",)]))))
    for reg_ in (spec["assemblies"]["A"].get("AxialRegion") or {}).values():
        if draw(st.booleans()):
            reg_["model"] = "6node"
    return spec


def parts(tier):
    q = tier == "quick"
    return [Part("slab_solution", run, strategy=cases(q), examples=160 if q else 5000, timeout=120),
            Part("swept_adiabatic_walls", run_swept, strategy=swept_cases(q), examples=64 if q else 1500, timeout=120)]

"""C05 - axial mesh is finite, monotone, exact on boundaries, within limit."""
import copy
import math
import types

import numpy as np
from hypothesis import strategies as st

from .. import units, drive, env, gen
from ..runner import Outcome, Part

ID = "C05"
TITLE = "Axial mesh is finite, monotone, exact on boundaries, within limit"
TECHNIQUE = "property-based testing (Hypothesis): the real mesh-construction methods driven on generated step requirements / boundary sets under a deterministic call budget (unit level) and on generated full inputs (integration), checked against validity predicates"
RULE = ("unit_mesh: a bare Reactor object carrying only generated min_dz, axial_mesh_size, power-mesh / region / "
        "requested-plane boundaries (including pairs 1e-7..1e-13 apart and unit-converted values) runs the real "
        "_setup_axial_region_bnds, _setup_overall_axial_mesh_req and _setup_zpts under a call budget; "
        "integration: generated cores with axial regions, several power meshes and axial_plane requests.  "
        "Non-trivial: >= 3 distinct boundaries and at least one step clipped by a boundary; distinct = spec hash")
ASSUMPTIONS = ["call budget 10*(L/req_dz + n_boundaries) + 100 on Reactor._check_dz stands for 'does not terminate' (no wall clock)",
               "termination with the documented error (SystemExit after a logged message) is an allowed outcome"]
LEVEL_NOTE = "validity predicate over Reactor.z/dz/axial_bnds; exact equality for the end point, 1e-12 for boundaries"


class Budget(Exception):
    pass


def bare_reactor(spec):
    env.setup()
    import dassh
    from dassh.logged_class import LoggedClass
    r = dassh.Reactor.__new__(dassh.Reactor)
    LoggedClass.__init__(r, 0, "dassh.reactor.Reactor")
    r._options = {"axial_mesh_size": spec.get("axial_mesh_size"), "axial_plane": spec.get("axial_plane")}
    r.min_dz = {"dz": list(spec["min_dz"]), "sc": ["x"] * len(spec["min_dz"])}
    r.power = {"user": [(i + 1, {"zfm": np.array(zb) * 100.0}) for i, zb in enumerate(spec["power_meshes"])]}
    inp = types.SimpleNamespace(data={"Assembly": {
        "A%d" % i: {"AxialRegion": {"r%d" % j: {"z_lo": lo, "z_hi": hi} for j, (lo, hi) in enumerate(regs)}}
        for i, regs in enumerate(spec["regions"])}})
    return r, inp


def check_mesh(o, z, dz, bnds, L, req_dz, limit, user, boundaries):
    z = np.asarray(z, float)
    dz = np.asarray(dz, float)
    o.check(bool(np.all(np.isfinite(z))) and bool(np.all(np.isfinite(dz))), "mesh_finite")
    o.check(z[0] == 0.0, "mesh_starts_at_zero", repr(z[0]))
    o.check(abs(z[-1] - L) <= 1e-12, "mesh_ends_at_core_length", "%r vs %r" % (z[-1], L))
    o.check(len(z) == len(dz) + 1, "mesh_lengths")
    inc = np.diff(z)
    o.check(bool(np.all(inc > 0)), "mesh_strictly_increasing", "min increment %.3e" % float(inc.min()))
    o.check(bool(np.all(dz > 0)), "step_positive", "min dz %.3e" % float(dz.min()))
    o.check(bool(np.allclose(inc, dz, rtol=0, atol=2e-12)), "dz_matches_planes",
            "%.3e" % float(np.max(np.abs(inc - dz))))
    o.check(abs(float(np.sum(dz)) - L) <= 1e-10 * max(L, 1.0) + 1e-12 * len(dz), "steps_sum_to_length",
            "%.3e" % (float(np.sum(dz)) - L))
    # every boundary is a plane
    missing = []
    for b in boundaries:
        if b < 0 or b > L:
            continue
        if float(np.min(np.abs(z - b))) > 1.5e-12:
            missing.append(b)
    o.check(not missing, "boundary_not_a_plane", "missing %s" % missing[:4])
    # no step above the stability limit / the cap
    cap = limit
    o.metric("max_step_over_limit", float(dz.max()) / cap)
    o.check(float(dz.max()) <= cap + 1e-12, "step_exceeds_limit", "max dz %.9g > limit %.9g" % (dz.max(), cap))
    if user is not None and user <= math.floor(limit * 1e6) / 1e6:
        o.check(abs(req_dz - user) <= 1e-15, "requested_step_not_honoured", "req_dz %r user %r" % (req_dz, user))
        o.check(float(dz.max()) <= user + 1e-12, "step_exceeds_request")
    else:
        want = min(math.floor(limit * 1e6) / 1e6, 0.01)
        o.check(abs(req_dz - want) <= 1e-15, "required_step_wrong", "req_dz %r expected %r (limit %r, user %r)"
                % (req_dz, want, limit, user))
    clipped = int(np.sum(dz < req_dz - 1e-12))
    return clipped


def run_unit(spec):
    o = Outcome()
    r, inp = bare_reactor(spec)
    limit = min(spec["min_dz"])
    user = spec.get("axial_mesh_size")
    calls = [0]
    boundaries = set()
    for zb in spec["power_meshes"]:
        boundaries.update(zb)
    for regs in spec["regions"]:
        for lo, hi in regs:
            boundaries.update((lo, hi))
    boundaries.update(spec.get("axial_plane") or [])
    L = max(boundaries)

    def work():
        r._setup_axial_region_bnds(inp)
        r._setup_overall_axial_mesh_req()
        if not r.req_dz > 0.0:
            raise Budget()     # a non-positive step can never reach the core length
        budget = 10 * (r.core_length / r.req_dz + len(r.axial_bnds)) + 100
        orig = r._check_dz

        def counted(zz):
            calls[0] += 1
            if calls[0] > budget:
                raise Budget()
            return orig(zz)
        r._check_dz = counted
        return r._setup_zpts()
    o.classes["limit_decade"] = int(math.floor(math.log10(limit)))
    o.classes["user_step"] = "none" if user is None else ("below" if user <= limit else "above")
    try:
        z, dz = drive.guarded("mesh", work)
    except drive.Rejected as e:
        o.classes["outcome"] = "error"
        # an error is acceptable only when the requirement really is unusable
        o.check(math.floor(limit * 1e6) / 1e6 <= 0.0 or (user is not None and user <= 0.0), "spurious_error", str(e)[:200])
        o.classes["error_reason"] = "limit<1e-6" if math.floor(limit * 1e6) / 1e6 <= 0.0 else "user_step_zero"
        o.nontrivial = True
        return o
    except drive.Crashed as e:
        if e.exc_type == "Budget":
            o.fail("mesh_construction_does_not_terminate", "more than the call budget of _check_dz calls; limit %r user %r"
                   % (limit, user))
        else:
            o.fail("crash:" + e.signature, str(e))
        return o
    o.classes["outcome"] = "mesh"
    o.check(abs(r.core_length - L) <= 1e-12, "core_length", "%r vs %r" % (r.core_length, L))
    nb = len(set(round(b, 12) for b in boundaries))
    clipped = check_mesh(o, z, dz, r.axial_bnds, r.core_length, r.req_dz, limit, user, boundaries)
    o.classes["steps_decade"] = int(math.floor(math.log10(max(len(dz), 1))))
    o.classes["near_pairs"] = bool(spec.get("_near"))
    o.nontrivial = nb >= 3 and clipped >= 1
    return o


@st.composite
def unit_cases(draw):
    conv = draw(st.sampled_from([1.0, 0.01, 0.001, 0.0254, 0.3048]))
    L = round(draw(gen.fl(0.05, 4.0)), draw(st.integers(2, 6)))
    L = round(L / conv, 4) * conv     # a value that came through a unit conversion

    def cut():
        kind = draw(st.integers(0, 3))
        if kind == 0:
            return round(draw(gen.fl(0.0, 1.0)) * L, draw(st.integers(1, 6)))
        if kind == 1:
            return round(draw(gen.fl(0.0, 1.0)) * L / conv, 3) * conv
        if kind == 2:
            return draw(st.integers(1, 63)) / 64.0 * L
        return draw(gen.fl(0.0, 1.0)) * L
    near = False
    meshes = []
    for _ in range(draw(st.integers(1, 3))):
        cuts = sorted(set(c for c in (cut() for _ in range(draw(st.integers(0, 4)))) if 0 < c < L))
        if cuts and draw(st.integers(0, 3)) == 0:
            eps = 10.0 ** (-draw(st.integers(7, 13)))
            c2 = cuts[0] + eps
            if c2 < L:
                cuts = sorted(set(cuts + [c2]))
                near = True
        meshes.append([0.0] + cuts + [L])
    regions = []
    for _ in range(draw(st.integers(0, 2))):
        lo_top = cut()
        hi_bot = cut()
        regs = []
        if 0 < lo_top < L:
            regs.append((0.0, lo_top))
        if lo_top < hi_bot < L:
            regs.append((hi_bot, L))
            regs.append((lo_top, hi_bot))
        elif 0 < lo_top < L:
            regs.append((lo_top, L))
        if regs:
            regions.append(regs)
    planes = None
    if draw(st.booleans()):
        planes = [cut() for _ in range(draw(st.integers(1, 4)))]
        if draw(st.integers(0, 2)) == 0 and planes:
            planes.append(planes[0] + 10.0 ** (-draw(st.integers(7, 13))))
            near = True
        planes = [p for p in planes if 0 <= p <= L]
    n_req = draw(st.integers(1, 4))
    lim = draw(gen.logfl(3e-7, 0.05))
    mins = [lim] + [lim * draw(gen.fl(1.0, 50.0)) for _ in range(n_req - 1)]
    user = None
    k = draw(st.integers(0, 3))
    if k == 1:
        user = lim * draw(gen.fl(0.05, 0.999))
    elif k == 2:
        user = lim * draw(gen.fl(1.001, 20.0))
    elif k == 3:
        user = round(lim * draw(gen.fl(0.3, 3.0)), 6)
    # bound the number of steps of a unit case (cost), keeping sub-micrometre .. centimetre requirements
    steps = L / min(lim, user or lim, 0.01)
    if steps > 4000:
        scale = steps / 4000.0
        L2 = L / scale
        f = L2 / L
        meshes = [[b * f for b in m] for m in meshes]
        regions = [[(lo * f, hi * f) for lo, hi in regs] for regs in regions]
        planes = [p * f for p in planes] if planes else planes
        for m in meshes:
            m[-1] = meshes[0][-1]
        regions = [[(lo, min(hi, meshes[0][-1]) if abs(hi - meshes[0][-1]) < 1e-9 else hi) for lo, hi in regs]
                   for regs in regions]
    spec = {"min_dz": mins, "axial_mesh_size": user, "power_meshes": meshes, "regions": regions,
            "axial_plane": planes, "_near": near}
    return spec


def run_integration(spec):
    o = Outcome()
    u = spec.get("_units")
    if u:
        # the same problem written in another length unit: every expectation below stays in metres
        with drive.Case({k: v for k, v in spec.items() if k != "_units"}) as c0:
            c0.resolve_length()
            si = copy.deepcopy(c0.spec)
        spec = units.convert(si, u, "kelvin", "kg", "s")
    o.classes["length_unit"] = u or "m"
    with drive.Case(spec) as c:
        try:
            r = c.setup()
        except drive.Rejected as e:
            o.classes["outcome"] = "error:" + e.stage
            if "below 1e-6" in str(e):
                o.inconclusive = "step_below_1e-6"
                return o
            raise
        sp = si if u else c.spec
        import dassh
        L = sp["core"]["length"]
        boundaries = set([0.0, L])
        for ap in sp["power"]["files"][0].values():
            boundaries.update(ap["zb"])
        for a in sp["assemblies"].values():
            for reg in (a.get("AxialRegion") or {}).values():
                boundaries.update((reg["z_lo"], reg["z_hi"]))
        boundaries.update(sp["setup"].get("axial_plane") or [])
        # independent re-evaluation of every assembly's (and the gap's) own stability requirement
        lims = []
        for a in r.assemblies:
            dzi, _ = dassh.assembly.calculate_min_dz(a, r.inlet_temp, a._estimated_T_out, r._is_adiabatic)
            lims.append(float(dzi))
        if r.core.model == "flow":
            cool = r.materials[sp["core"]["coolant_material"].lower()]
            t_out = dassh.utils.Q_equals_mCdT(r.total_power, r.inlet_temp, cool, mfr=r.flow_rate)
            dzg, _ = dassh.core.calculate_min_dz(r.core, r.inlet_temp, t_out)
            lims.append(float(dzg))
        limit = min(lims)
        o.classes["n_asm"] = len(r.assemblies)
        o.classes["limiting"] = "gap" if (r.core.model == "flow" and lims[-1] == limit) else "asm"
        user = sp["setup"].get("axial_mesh_size")
        o.classes["user_step"] = "none" if user is None else ("below" if user <= limit else "above")
        o.check(abs(min(r.min_dz["dz"]) - limit) <= 1e-9 * limit, "stored_requirement_differs",
                "Reactor.min_dz %r vs re-evaluated %r" % (min(r.min_dz["dz"]), limit))
        bad = [(i, float(a_), b_) for i, (a_, b_) in enumerate(zip(r.min_dz["dz"], lims)) if abs(a_ - b_) > 1e-9 * b_]
        o.check(not bad and len(r.min_dz["dz"]) == len(lims), "assembly_requirement_differs",
                "(index, stored, re-evaluated) %s" % bad[:3])
        o.classes["bc_temp"] = any("FLOWRATE" not in row[4] for row in sp["assignment"])
        clipped = check_mesh(o, r.z, r.dz, r.axial_bnds, r.core_length, r.req_dz, limit, user, boundaries)
        o.check(abs(r.core_length - L) <= 1e-12, "core_length")
        o.nontrivial = len(boundaries) >= 3 and clipped >= 1
    return o


@st.composite
def integration_cases(draw):
    spec = draw(gen.core_spec(core_rings=(1, 2), n_types=(1, 3), rings=(2, 4), ducts=(1, 2),
                              gap_models=("flow", "none", "no_flow"), regimes=("lam", "tra", "tur"),
                              n_steps=(20, 120), regions=True, lowfi=True, max_cells=4, byp_frac=(0.02, 0.3),
                              bc_kinds=("FLOWRATE", "OUTLET_TEMP", "DELTA_TEMP")))
    if draw(st.booleans()):
        spec["setup"]["axial_plane_frac"] = [round(draw(gen.fl(0.0, 1.0)), 4) for _ in range(draw(st.integers(1, 4)))]
    k = draw(st.integers(0, 2))
    if k:
        spec["setup"]["axial_mesh_size_frac"] = gen.r6(draw(gen.logfl(0.002, 0.05))) if k == 1 else 0.5
    if draw(st.integers(0, 2)) == 0:
        spec["_units"] = draw(st.sampled_from(["cm", "mm", "in", "ft"]))
    return spec


def parts(tier):
    q = tier == "quick"
    return [
        Part("unit_mesh", run_unit, strategy=unit_cases(), examples=600 if q else 20000, timeout=60),
        Part("integration", run_integration, strategy=integration_cases(), examples=64 if q else 2000),
    ]

"""C13 - pin radial temperatures are ordered and obey radial heat conduction."""
import math

import numpy as np
from hypothesis import strategies as st

from .. import geom, drive, gen, observe
from ..runner import Outcome, Part

ID = "C13"
TITLE = "Pin radial temperatures are ordered and obey radial heat conduction"
TECHNIQUE = "property-based testing (Hypothesis): pin models built through the real input path from generated Fuel-/PinModel sections, called with generated powers and film coefficients and read back after sweep steps; closed forms for film, clad and gap drops, independent shell-by-shell re-solve of the pellet, monotonicity pairs; swept film drop against a film coefficient derived in the harness and the pin power delivered"
RULE = ("generated assemblies with a FuelModel (1-5 zones, solid/annular, metal-fuel compositions, bonded or gas gap) or a "
        "PinModel (user pin materials with T-dependent conductivity per zone); (a) PinModel.calculate_temperatures called "
        "directly with linear powers 0..2e5 W/m, film coefficients 1e3..2e5 and coolant temperatures; (b) pin_temps read "
        "after every step of a short sweep of a 1-3 assembly core.  Non-trivial: non-zero power and (>= 2 radial zones with "
        "different conductivity, or a gap > 0, or annular pellet); distinct = spec hash")
ASSUMPTIONS = ["conductivities are evaluated with the model's own k(T) callables at the *reported* temperatures",
               "the routine iterates to atol = 1e-3 K, so closed-form residuals are bounded by a few atol, not by round-off",
               "annular pellets: the reference is the exact hollow-cylinder relation with uniform heating"]
LEVEL_NOTE = "film drop 1e-10 relative; clad/gap/fuel relations within 5e-3 K + 1e-6 of the drop per zone"

SB = 5.670374419e-8


def kbar(kf, a, b):
    return 0.5 * (np.asarray(kf(a), float) + np.asarray(kf(b), float))


def fuel_k(pm, i, T):
    out = np.zeros_like(T)
    for j, t in enumerate(T):
        pm.fuel["mat"][i].update(float(t))
        out[j] = pm.fuel["mat"][i].thermal_conductivity
    return out


def solve_shell(pm, i, T_out, dT_over_k_num):
    """T_in with T_in - T_out = num / (0.5 (k_i(T_in) + k_i(T_out))) by bisection (per pin)."""
    res = np.zeros_like(T_out)
    for j, to in enumerate(T_out):
        num = dT_over_k_num[j]
        if num == 0.0:
            res[j] = to
            continue
        ko = fuel_k(pm, i, np.array([to]))[0]

        def g(t):
            return t - to - num / (0.5 * (fuel_k(pm, i, np.array([t]))[0] + ko))
        lo, hi = to, to + 4.0 * num / max(ko, 1e-6) + 10.0
        k = 0
        while g(hi) < 0 and k < 60:
            hi = to + 2.0 * (hi - to)
            k += 1
        for _ in range(200):
            mid = 0.5 * (lo + hi)
            if g(mid) > 0:
                hi = mid
            else:
                lo = mid
            if hi - lo < 1e-9:
                break
        res[j] = 0.5 * (lo + hi)
    return res


def check_rows(o, pm, q, Tc, h, t, tag, exact_chain=True):
    """t: n x 6 = coolant, clad od, clad mw, clad id, fuel od, fuel cl"""
    n = len(q)
    o.check(bool(np.all(np.isfinite(t))), tag + "_not_finite")
    o.check(bool(np.array_equal(t[:, 0], Tc)), tag + "_coolant_column")
    d = np.diff(t, axis=1)
    o.check(bool(np.all(d >= -1e-9)), tag + "_ordering", "min step %.3e K at pin %d" % (float(d.min()), int(np.argmin(d.min(axis=1)))))
    zero = q == 0.0
    if np.any(zero):
        o.check(bool(np.all(np.abs(t[zero] - Tc[zero, None]) <= 1e-9)), tag + "_zero_power_not_flat")
    ro, rm, ri = pm.clad["r"][2], pm.clad["r"][1], pm.clad["r"][0]
    qp = q / (2.0 * math.pi)              # q' / 2 pi
    # film
    film = t[:, 1] - t[:, 0]
    ref = qp / (h * ro)
    e = float(np.max(np.abs(film - ref) / (np.maximum(np.abs(ref), 1e-9) + 1e-3 * np.abs(t[:, 0]))))
    o.metric("film_rel_err", e)
    o.check(e <= 1e-12, tag + "_film_drop", "%.3e of (drop + 1e-3 T)" % e)
    # clad
    kc = kbar(pm.clad["k"], t[:, 3], t[:, 1])
    ref = qp * math.log(ro / ri) / kc
    err = np.abs((t[:, 3] - t[:, 1]) - ref)
    tol = 1e-3 + 1e-6 * np.abs(ref)
    o.metric("clad_drop_err_K", float(np.max(err)))
    o.check(bool(np.all(err <= tol)), tag + "_clad_drop", "max %.3e K (drop %.3f K)" % (float(err.max()), float(ref[np.argmax(err)])))
    refm = qp * math.log(ro / rm) / kc
    errm = np.abs((t[:, 2] - t[:, 1]) - refm)
    o.check(bool(np.all(errm <= tol)), tag + "_clad_midwall", "max %.3e K" % float(errm.max()))
    # gap
    gap = pm.gap["dr"]
    rf = pm.fuel["r"][-1, 1]
    if gap > 0:
        kg = kbar(pm.gap["k"], t[:, 4], t[:, 3])
        flux = q / (2.0 * math.pi * rf)
        resid = kg * (t[:, 4] - t[:, 3]) / gap + pm.fuel["e"] * SB * (t[:, 4] ** 4 - t[:, 3] ** 4) - flux
        # convert the flux residual to a temperature error with the local conductance
        cond = kg / gap + 4.0 * pm.fuel["e"] * SB * t[:, 4] ** 3
        errg = np.abs(resid / cond)
        o.metric("gap_drop_err_K", float(np.max(errg)))
        o.check(bool(np.all(errg <= 1e-3 + 1e-6 * np.abs(t[:, 4] - t[:, 3]))), tag + "_gap_balance",
                "max %.3e K (drop %.3f K)" % (float(errg.max()), float((t[:, 4] - t[:, 3])[np.argmax(errg)])))
    else:
        o.check(bool(np.array_equal(t[:, 4], t[:, 3])), tag + "_no_gap_no_drop")
    # fuel: independent shell-by-shell solve from the reported surface temperature inwards
    r = pm.fuel["r"]
    r0 = r[0, 0]
    qd = q / pm.fuel["area"]
    T = t[:, 4].copy()
    for i in reversed(range(r.shape[0])):
        a, b = r[i, 0], r[i, 1]
        geomf = 0.25 * (b * b - a * a)
        if r0 > 0:
            geomf -= 0.5 * r0 * r0 * math.log(b / a)
        T = solve_shell(pm, i, T, qd * geomf)
    errf = np.abs(t[:, 5] - T)
    drop = np.abs(T - t[:, 4])
    o.metric("fuel_cl_err_K", float(np.max(errf)))
    o.metric("fuel_cl_err_rel", float(np.max(errf / np.maximum(drop, 1.0))))
    o.check(bool(np.all(errf <= 1e-3 * r.shape[0] + 1e-5 * drop)), tag + "_fuel_conduction",
            "centre line %.4f K vs independent shell solve %.4f K (drop %.2f K, %d zones, inner radius %.3g)"
            % (float(t[np.argmax(errf), 5]), float(T[np.argmax(errf)]), float(drop[np.argmax(errf)]), r.shape[0], r0))


def model_classes(o, pm, spec):
    a = spec["assemblies"]["A"] if "A" in spec["assemblies"] else list(spec["assemblies"].values())[0]
    o.classes["model"] = "FuelModel" if "FuelModel" in a else "PinModel"
    o.classes["zones"] = int(pm.fuel["r"].shape[0])
    o.classes["annular"] = bool(pm.fuel["r"][0, 0] > 0)
    o.classes["gap"] = bool(pm.gap["dr"] > 0)


def run_direct(spec):
    o = Outcome()
    st_ = spec["_state"]
    with drive.Case(spec) as c:
        r = c.setup()
        reg = r.assemblies[0].rodded
        pm = reg.pin_model
        model_classes(o, pm, spec)
        n = 12
        q = np.array([st_["q"] * x for x in st_["qw"]])[:n]
        q[0] = 0.0
        Tc = np.array([st_["Tc"] + 30.0 * math.sin(i) for i in range(n)])
        h = st_["h"]
        dz = st_["dz"]
        try:
            t1 = drive.guarded("pin", pm.calculate_temperatures, q.copy(), Tc.copy(), h, dz)
        except drive.Rejected as e:
            # documented non-convergence / material range error: allowed only at extreme power
            o.classes["outcome"] = "error"
            o.check("iteration" in str(e).lower() or "must be" in str(e).lower() or "converge" in str(e).lower(),
                    "pin_model_unexpected_error", str(e)[:200])
            o.nontrivial = True
            return o
        check_rows(o, pm, q, Tc, h, t1, "direct")
        # independent of dz (linear power in, temperatures out)
        t1b = drive.guarded("pin", pm.calculate_temperatures, q.copy(), Tc.copy(), h, dz * 3.7)
        o.check(float(np.max(np.abs(t1b - t1))) <= 2e-3, "depends_on_step_length", "%.3e K" % float(np.max(np.abs(t1b - t1))))
        # monotone in power
        try:
            t2 = drive.guarded("pin", pm.calculate_temperatures, 1.1 * q, Tc.copy(), h, dz)
            o.check(bool(np.all(t2 >= t1 - 2e-3)), "not_monotone_in_power", "min change %.3e K" % float((t2 - t1).min()))
        except drive.Rejected:
            pass
        o.classes["outcome"] = "ok"
        k_var = o.classes["zones"] >= 2
        o.nontrivial = st_["q"] > 0 and (k_var or o.classes["gap"] or o.classes["annular"])
    return o


def run_sweep(spec):
    o = Outcome()
    with drive.Case(spec) as c:
        r = c.setup()
        first = [a for a in r.assemblies if a.has_rodded and hasattr(a.rodded, "pin_model")]
        if not first:
            o.inconclusive = "no_pin_model"
            return o
        model_classes(o, first[0].rodded.pin_model, spec)
        steps = [0]
        from dassh.region_rodded import q_p2sc
        from dassh.correlations import nusselt_db
        metas = spec["_meta"].get("types", {})
        cm = spec["materials"].get(spec["core"]["coolant_material"])
        const_cool = cm is not None
        if const_cool:
            mu_c, k_c, cp_c = cm["viscosity"][0], cm["thermal_conductivity"][0], cm["heat_capacity"][0]

        def after(i, z, dz, regs):
            for a, reg in zip(r.assemblies, regs):
                if not (reg.is_rodded and hasattr(reg, "pin_model")):
                    continue
                steps[0] += 1
                t = reg.pin_temps
                o.check(bool(np.all(t[:, 0] == a.id)), "pin_table_assembly_id", "asm %d: ids %s" % (a.id, np.unique(t[:, 0])[:3]))
                o.check(bool(np.array_equal(t[:, 2], np.arange(reg.n_pin))), "pin_table_pin_index")
                # coolant seen by each pin: weighted mean of its adjacent subchannels
                sc = reg.subchannel
                Tsc = reg.temp["coolant_int"]
                w = q_p2sc[sc.type[:len(Tsc)]]
                own = np.zeros(reg.n_pin)
                wsum = np.zeros(reg.n_pin)
                for p in range(reg.n_pin):
                    for s in sc.pin_adj[p]:
                        if s >= 0:
                            own[p] += w[s] * Tsc[s]
                            wsum[p] += w[s]
                o.check(float(np.max(np.abs(wsum - 1.0))) <= 1e-12, "pin_coolant_weights")
                e = float(np.max(np.abs(t[:, 3] - own)))
                o.metric("pin_coolant_err_K", e)
                o.check(e <= 1e-9, "pin_coolant_is_not_adjacent_average", "asm %d step %d: %.3e K" % (a.id, i, e))
                # the radial chain of this assembly's own pins at this plane
                p_lin = a.power.get_power(z - 0.5 * dz)["pins"]
                d = np.diff(t[:, 3:], axis=1)
                o.check(bool(np.all(d >= -1e-9)), "sweep_ordering", "asm %d step %d: %.3e" % (a.id, i, float(d.min())))
                if p_lin is None or not np.any(p_lin > 0):
                    o.check(float(np.max(np.abs(t[:, 4:] - t[:, 3:4]))) <= 1e-9, "sweep_zero_power_not_flat")
                elif const_cool and a.name in metas:
                    # film drop with a film coefficient derived here: bundle Reynolds number from the flow INSIDE the inner
                    # duct and the harness' own bundle area / hydraulic diameter, Dittus-Boelter form with the model's constants
                    m_ = metas[a.name]
                    area, wp = geom.bundle_area_wp(m_["n_ring"], m_["P"], m_["D"], m_["Dw"], m_["H"], m_["inner_ftf"])
                    de = 4.0 * area / wp
                    Re = float(reg.int_flow_rate) / area * de / mu_c
                    cc = reg.pin_model.htc_params or list(nusselt_db._DEFAULT_DB_CONSTS)
                    h_ref = k_c * (cc[0] * Re ** cc[1] * (cp_c * mu_c / k_c) ** cc[2] + cc[3]) / de
                    # (summed over the pins and compared with the pin power actually delivered over this step, which
                    # includes the per-cell renormalisation of the power profile)
                    q_sum = (observe.total_power_delivered(a)["pins"] - pd0[a.id]) / dz
                    film_sum = float(np.sum(t[:, 4] - t[:, 3])) * np.pi * m_["D"] * h_ref
                    ef = abs(film_sum - q_sum) / (abs(q_sum) + 1e-6 * np.pi * m_["D"] * h_ref * float(np.sum(np.abs(t[:, 3]))))
                    o.metric("sweep_film_rel_err", ef)
                    o.check(ef <= 1e-7, "sweep_film_drop", "asm %d step %d: sum of film drops x pi D h = %.8e W/m, pin power "
                            "delivered %.8e W/m (Re %.5g, h %.6g, %d ducts)" % (a.id, i, film_sum, q_sum, Re, h_ref, reg.n_duct))
        pd0 = {}

        def before(i, z, dz):
            for a in r.assemblies:
                pd0[a.id] = observe.total_power_delivered(a)["pins"]
        drive.sweep(r, before, after)
        o.classes["n_asm"] = len(r.assemblies)
        o.classes["same_type_with_pins"] = len(first) - len(set(a.name for a in first)) > 0
        o.nontrivial = steps[0] >= 10
    return o


@st.composite
def direct_cases(draw):
    spec = draw(gen.single_assembly(rings=(2, 3), ducts=(1, 1), n_steps=(3, 5), gap_model="none", regimes=("tur",),
                                    max_cells=1, comps=("pins",), dT=(10.0, 50.0)))
    if draw(st.booleans()):
        gen.attach_pin_model(spec, "A", draw(gen.fuel_model()), fuel=True)
    else:
        pm, mats = draw(gen.pin_model())
        gen.attach_pin_model(spec, "A", pm, mats, fuel=False)
    spec["_state"] = {"q": 0.0 if draw(st.integers(0, 9)) == 0 else gen.r6(draw(gen.logfl(10.0, 2e5))),
                      "qw": [gen.r6(draw(gen.fl(0.2, 1.0))) for _ in range(12)],
                      "Tc": gen.r6(draw(gen.fl(500.0, 900.0))), "h": gen.r6(draw(gen.logfl(1e3, 2e5))),
                      "dz": gen.r6(draw(gen.logfl(1e-4, 0.05)))}
    return spec


@st.composite
def sweep_cases(draw, q):
    spec = draw(gen.core_spec(core_rings=(1, 2), n_types=(1, 2), rings=(2, 3), ducts=(1, 2), gap_models=("flow", "none"),
                              regimes=("lam", "tra", "tur"), n_steps=(12, 30), lowfi=False, regions=True, max_cells=3,
                              dT=(20.0, 150.0), byp_frac=(0.02, 0.3)))
    for name in spec["assemblies"]:
        if draw(st.integers(0, 3)) > 0:
            if draw(st.booleans()):
                gen.attach_pin_model(spec, name, draw(gen.fuel_model()), fuel=True)
            else:
                pm, mats = draw(gen.pin_model())
                mats = {"%s_%s" % (name.lower(), kk): v for kk, v in mats.items()}
                pm["pin_material"] = ["%s_%s" % (name.lower(), kk) for kk in pm["pin_material"]]
                gen.attach_pin_model(spec, name, pm, mats, fuel=False)
    return spec


def parts(tier):
    q = tier == "quick"
    return [
        Part("direct_calls", run_direct, strategy=direct_cases(), examples=160 if q else 5000, timeout=120),
        Part("swept_pin_temperatures", run_sweep, strategy=sweep_cases(q), examples=32 if q else 800, timeout=180),
    ]

"""C06 - assemblies interact only through duct-wall heat transfer."""
import copy

import numpy as np
from hypothesis import strategies as st

from .. import drive, gen, observe, units
from ..runner import Outcome, Part

ID = "C06"
TITLE = "Assemblies interact only through duct-wall heat transfer"
TECHNIQUE = "property-based testing (Hypothesis): metamorphic pairs (assembly alone vs inside an adiabatic core on the same planes; shared vs private type definitions; reordered input) and generated interleaving histories of per-assembly updates with a state audit after every update"
RULE = ("alone_vs_core: generated adiabatic cores (2-7 assemblies, 1-3 types, T-dependent and constant coolants, bypass "
        "ducts, pin models, param_update_tol) and one drawn member re-run alone on the same axial planes; "
        "type_sharing: every assembly given a private copy of its type definition; interleaving: a drawn schedule of "
        "single-assembly advances, state of all other assemblies audited after each advance, final state compared with "
        "the ordinary sweep.  Non-trivial: >= 2 assemblies of one type with different power or flow and a "
        "T-dependent coolant; distinct = spec hash")
ASSUMPTIONS = ["gap_model none (adiabatic) so that no physical coupling exists",
               "both runs of a pair are forced onto the same axial planes (axial_mesh_size below both requirements, all "
               "boundaries of the core run requested as axial_plane in the stand-alone run)"]
LEVEL_NOTE = "temperatures compared to 1e-9 K, pressure drop to 1e-9 relative"

TOL = 1e-9


def asm_fields(a):
    reg = a.active_region
    f = {"cool": reg.temp["coolant_int"].copy(), "duct": reg.temp["duct_mw"].copy(),
         "dp": float(a.pressure_drop), "peak_cool": float(a._peak["cool"][0]),
         "peak_duct": [float(x[0]) for x in a._peak["duct"]]}
    if "coolant_byp" in reg.temp:
        f["byp"] = reg.temp["coolant_byp"].copy()
    if hasattr(reg, "pin_temps"):
        f["pins"] = reg.pin_temps[:, 3:].copy()
    if "pin" in a._peak:
        f["peak_pin"] = [float(a._peak["pin"][k][0]) for k in sorted(a._peak["pin"])]
    return f


def compare(o, fa, fb, tag):
    worst = 0.0
    for k in fa:
        a, b = np.asarray(fa[k], float), np.asarray(fb.get(k), float)
        if a.shape != b.shape:
            o.fail("field_shape_differs_" + k, tag)
            continue
        if k == "dp":
            if np.isnan(float(a)) and np.isnan(float(b)):
                # the same undefined value on both sides (e.g. a friction correlation evaluated far below its range) is
                # not a coupling between assemblies; what makes it undefined is C12's subject
                o.classes["nan_pressure_drop"] = True
                continue
            d = abs(float(a) - float(b)) / max(abs(float(a)), 1e-300)
            o.metric("pressure_drop_rel_dev", d)
            o.check(d <= TOL, "pressure_drop_differs", "%s: %.10e vs %.10e" % (tag, float(a), float(b)))
            continue
        d = float(np.max(np.abs(a - b))) if a.size else 0.0
        worst = max(worst, d)
        o.check(d <= TOL, "temperature_differs_" + k, "%s: max deviation %.3e K" % (tag, d))
    return worst


def pin_planes(spec, c):
    """Common preparation: resolve length, find the step requirement and pin a user step below it."""
    c.resolve_length()
    c.write()
    c.read()
    r0 = c.make_reactor()
    return float(r0.req_dz), np.array(r0.axial_bnds)


def run_alone_vs_core(spec):
    o = Outcome()
    k = spec["_target"]
    if spec.get("_merge"):
        # runs of neighbours of one type written as ONE assignment line (they get the boundary condition of the first)
        o.classes["merged_lines"] = min(gen.merge_assignment_lines(spec), 3)
    with drive.Case(spec) as c:
        req, bnds = pin_planes(spec, c)
        spec_core = copy.deepcopy(c.spec)
    s = float(np.floor(req * 0.5 * 1e7) / 1e7)
    if s <= 0:
        o.inconclusive = "step_too_small"
        return o
    spec_core["setup"]["axial_mesh_size"] = s
    # one row per position (in position order) before runs of neighbours are optionally written as ONE assignment line
    expanded = sorted([[r_[0], r_[1], p_, p_, copy.deepcopy(r_[4])] for r_ in spec_core["assignment"]
                       for p_ in range(r_[2], r_[3] + 1)], key=lambda r_: (r_[1], r_[2]))
    u = spec.get("_units")
    o.classes["units"] = "SI" if not u else "%s/%s/%s/%s" % (u["length"], u["temperature"], u["mass"], u["time"])

    def written(sp_):
        # (both runs are written in the same unit system, so every value goes through the same conversion)
        return units.convert(sp_, u["length"], u["temperature"], u["mass"], u["time"]) if u else sp_

    with drive.Case(written(spec_core)) as c:
        r = c.setup()
        names = [a.name for a in r.assemblies]
        kk = k % len(r.assemblies)
        drive.sweep(r)
        asm = r.assemblies[kk]
        f_core = asm_fields(asm)
        P_asm = float(asm.total_power)
        flow_core = float(asm.flow_rate)
        approx_core = [bool(getattr(g_, "_conv_approx", False)) for g_ in asm.region]
        z_core = np.array(r.z)
        tname = asm.name
        row = expanded[kk]
        n_same = sum(1 for x in names if x == tname)
    idx = 0 if row[1] == 1 else 3 * (row[1] - 1) * (row[1] - 2) + row[2]
    alone = copy.deepcopy(spec_core)
    alone["assemblies"] = {tname: copy.deepcopy(spec_core["assemblies"][tname])}
    alone["assignment"] = [[tname, 1, 1, 1, copy.deepcopy(row[4])]]
    alone["power"]["files"] = [{"1": copy.deepcopy(spec_core["power"]["files"][0][str(idx + 1)])}]
    alone["power"]["total_power"] = P_asm / (spec_core["power"].get("scaling") or 1.0)
    alone["setup"]["axial_plane"] = [float(b) for b in bnds]
    with drive.Case(written(alone)) as c:
        r1 = c.setup()
        # its own flow rate is part of its own description: the same assignment entry must give the same flow
        fa = float(r1.assemblies[0].flow_rate)
        if not o.check(abs(fa - flow_core) <= 1e-12 * abs(fa), "flow_rate_differs",
                       "assembly %d (%s): %.12g kg/s in the core of %d, %.12g kg/s alone (same assignment entry, units %s)"
                       % (kk, tname, flow_core, len(names), fa, o.classes["units"])):
            return o
        # which heat-transfer model its regions use (low-flow convection approximation) is decided by its own step requirement
        approx_alone = [bool(getattr(g_, "_conv_approx", False)) for g_ in r1.assemblies[0].region]
        o.check(approx_alone == approx_core, "conv_approx_flag_depends_on_other_assemblies",
                "assembly %d (%s): regions use the approximation %s in the core of %d, %s alone" % (kk, tname, approx_core, len(names), approx_alone))
        if not (len(r1.z) == len(z_core) and np.allclose(r1.z, z_core, rtol=0, atol=1e-12)):
            o.inconclusive = "planes_differ"
            return o
        drive.sweep(r1)
        f_alone = asm_fields(r1.assemblies[0])
        o.check(abs(r1.assemblies[0].total_power - P_asm) <= 1e-12 * max(P_asm, 1e-300), "harness_power_mismatch")
    w = compare(o, f_core, f_alone, "assembly %d (%s) alone vs in a core of %d" % (kk, tname, len(names)))
    o.metric("max_deviation_K", w)
    o.classes.update({"n_asm": len(names), "same_type_members": min(n_same, 4),
                      "coolant": spec["core"]["coolant_material"], "conv_mix": bool(spec.get("_conv_mix")), "tdep": spec["core"]["coolant_material"] != "cool_c"})
    o.nontrivial = n_same >= 2 and o.classes["tdep"]
    return o


def run_type_sharing(spec):
    o = Outcome()
    with drive.Case(spec) as c:
        c.resolve_length()
        shared = copy.deepcopy(c.spec)
    with drive.Case(shared) as c:
        r = c.setup()
        drive.sweep(r)
        fs = [asm_fields(a) for a in r.assemblies]
        names = [a.name for a in r.assemblies]
        zs = np.array(r.z)
    private = copy.deepcopy(shared)
    private["assemblies"] = {}
    for i, row in enumerate(private["assignment"]):
        new = "%s_p%d" % (row[0], i)
        private["assemblies"][new] = copy.deepcopy(shared["assemblies"][row[0]])
        row[0] = new
    # also reverse the order of the assignment lines
    private["assignment"] = list(reversed(private["assignment"]))
    with drive.Case(private) as c:
        r2 = c.setup()
        if not (len(r2.z) == len(zs) and np.allclose(r2.z, zs, rtol=0, atol=1e-12)):
            o.inconclusive = "planes_differ"
            return o
        drive.sweep(r2)
        fp = [asm_fields(a) for a in r2.assemblies]
    w = 0.0
    for i, (a, b) in enumerate(zip(fs, fp)):
        w = max(w, compare(o, a, b, "assembly %d (%s): shared type vs private type" % (i, names[i])))
    o.metric("max_deviation_K", w)
    n_same = max(names.count(x) for x in set(names))
    o.classes.update({"n_asm": len(names), "same_type_members": min(n_same, 4),
                      "conv_mix": bool(spec.get("_conv_mix")), "tdep": spec["core"]["coolant_material"] != "cool_c"})
    o.nontrivial = n_same >= 2 and o.classes["tdep"]
    return o


def state_digest(a):
    """Everything another assembly's advance must not touch."""
    out = []
    for reg in a.region:
        for k in sorted(reg.temp):
            out.append(("temp", k, reg.temp[k].tobytes()))
        for mat in ("coolant", "duct"):
            m = getattr(reg, mat, None)
            if m is not None:
                out.append((mat, repr(float(m.temperature)), repr(float(np.sum(m.thermal_conductivity))),
                            repr(float(getattr(m, "_heat_capacity", 0.0) or 0.0)), repr(float(getattr(m, "_density", 0.0) or 0.0))))
        for pk in ("coolant_int_params", "coolant_byp_params", "coolant_params"):
            p = getattr(reg, pk, None)
            if p is not None:
                out.append((pk, tuple((k, np.asarray(v, float).tobytes()) for k, v in sorted(p.items())
                                      if not isinstance(v, (str, type(None))))))
        # (repr: an undefined pressure drop, NaN, must compare equal to itself)
        out.append(("dp", tuple(sorted((k, repr(float(v))) for k, v in reg._pressure_drop.items()))))
        out.append(("ebal", tuple((k, np.asarray(v, float).tobytes()) for k, v in sorted(reg.ebal.items()))))
        if hasattr(reg, "pin_temps"):
            out.append(("pins", reg.pin_temps.tobytes()))
    out.append(("peak", repr(a._peak)))
    out.append(("pd", tuple(sorted(a._power_delivered.items()))))
    out.append(("z", a._z, a.active_region_idx, a.power._step))
    return out


def diff_digest(d0, d1):
    for x, y in zip(d0, d1):
        if x != y:
            return "%s/%s" % (x[0], x[1] if len(x) > 1 and isinstance(x[1], str) else "")
    return None


def run_interleaving(spec):
    o = Outcome()
    sched = spec["_schedule"]
    with drive.Case(spec) as c:
        c.resolve_length()
        sp = copy.deepcopy(c.spec)
    with drive.Case(sp) as c:
        r = c.setup()
        drive.sweep(r)
        ref = [asm_fields(a) for a in r.assemblies]
        names = [a.name for a in r.assemblies]
    with drive.Case(sp) as c:
        r = c.setup()
        n = len(r.assemblies)
        nz = len(r.z)
        step = [1] * n
        r.axial_step0()
        ones = [np.ones(a.duct_outer_surf_temp.shape[0]) for a in r.assemblies]
        fails = {}

        def advance(k):
            a = r.assemblies[k]
            i = step[k]
            if i >= nz:
                return False
            others = {j: state_digest(r.assemblies[j]) for j in range(n) if j != k}
            r._calculate_asm_temperatures(a, k, r.z[i], r.dz[i - 1], False)
            if i + 1 < nz and a.check_region_update(r.z[i + 1]):
                g = np.ones(a.duct_outer_surf_temp.shape[0])
                a.update_region(r.z[i + 1], g, g, True)
            step[k] += 1
            for j, d0 in others.items():
                what = diff_digest(d0, state_digest(r.assemblies[j]))
                if what is not None:
                    fails.setdefault("advance_changes_other_assembly_" + what.split("/")[0],
                                     "advancing assembly %d (%s) at step %d changed %s of assembly %d (%s)"
                                     % (k, names[k], i, what, j, names[j]))
            return True

        def run():
            for k in sched:
                advance(k % n)
            for k in range(n):
                while advance(k):
                    pass
        drive.guarded("interleave", run)
        o.checks += sum(step)
        for k, v in fails.items():
            o.fail(k, v)
        w = 0.0
        for i, a in enumerate(r.assemblies):
            w = max(w, compare(o, ref[i], asm_fields(a), "assembly %d (%s): interleaved vs ordinary sweep" % (i, names[i])))
        o.metric("max_deviation_K", w)
    n_same = max(names.count(x) for x in set(names))
    o.classes.update({"n_asm": len(names), "same_type_members": min(n_same, 4),
                      "conv_mix": bool(spec.get("_conv_mix")), "tdep": spec["core"]["coolant_material"] != "cool_c", "schedule_len": min(len(sched), 50) // 10 * 10})
    o.nontrivial = n_same >= 2 and o.classes["tdep"] and len(sched) > 0
    return o


@st.composite
def cores(draw, q, with_target=False, with_schedule=False, gap_models=("none",)):
    tdep = draw(st.integers(0, 3)) > 0
    spec = draw(gen.core_spec(core_rings=(2, 2), n_types=(1, 2), rings=(2, 3) if q else (2, 5), ducts=(1, 2),
                              coolant=["sodium", "sodium_se2anl", "lead", "nak"] if tdep else "const",
                              gap_models=gap_models, regimes=("low", "lam", "tra", "tur"), n_steps=(20, 50),
                              lowfi=True, regions=True, dT=(40.0, 250.0), duct_const=not tdep, max_cells=2,
                              conv_approx=True, byp_frac=(0.03, 0.3)))
    if draw(st.booleans()):
        spec["setup"]["param_update_tol"] = gen.r6(draw(gen.logfl(1e-4, 0.1)))
    spec["_conv_mix"] = False
    if len(spec["assignment"]) >= 2 and draw(st.integers(0, 3)) == 0:
        # class "conv_approx mix": the low-flow convection approximation is on, one assembly (drawn
        # position in the list) has a very low flow (its edge / corner cells limit the step below the cut-off) and the
        # others are cooled normally - flags set while one assembly is set up must not leak to the ones after it
        spec["setup"]["conv_approx"] = True
        # (the step requirement scales with the flow: 20-80 vs >= 2000 in Reynolds number separates the low-flow assembly
        # from the others by more than a decade; a cut-off around 1e-3 m lies between them for most drawn geometries)
        spec["setup"]["conv_approx_dz_cutoff"] = draw(st.sampled_from([5e-4, 1e-3, 2e-3]))
        k_low = draw(st.integers(0, len(spec["assignment"]) - 1))
        for k, (row, pm) in enumerate(zip(spec["assignment"], spec["_meta"]["pos"])):
            if "FLOWRATE" not in row[4]:
                continue
            target = gen.r6(draw(gen.logfl(20.0, 80.0))) if k == k_low else (pm["Re"] if pm["Re"] > 900 else gen.r6(draw(gen.logfl(2e3, 2e4))))
            f = target / pm["Re"]
            if f != 1.0:
                row[4]["FLOWRATE"] = gen.r6(row[4]["FLOWRATE"] * f)
                pm["Re"], pm["flow"] = target, row[4]["FLOWRATE"]
                ap = spec["power"]["files"][0][str(pm["idx"] + 1)]
                for key in ("pins", "duct", "cool"):
                    if key in ap:
                        ap[key]["base"] = [[gen.r6(x * f) for x in r_] for r_ in ap[key]["base"]]
        spec["power"]["total_power"] = None
        spec["_conv_mix"] = True
    if with_target:
        spec["_target"] = draw(st.integers(0, 6))
        spec["_merge"] = draw(st.integers(0, 2)) > 0
        if draw(st.booleans()):
            spec["_units"] = {"length": draw(st.sampled_from(list(units.LENGTH))), "temperature": draw(st.sampled_from(units.TEMP)),
                              "mass": draw(st.sampled_from(list(units.MASS))), "time": draw(st.sampled_from(list(units.TIME)))}
    if with_schedule:
        spec["_schedule"] = draw(st.lists(st.integers(0, 6), min_size=1, max_size=60))
    return spec


def parts(tier):
    q = tier == "quick"
    return [
        Part("alone_vs_core", run_alone_vs_core, strategy=cores(q, with_target=True), examples=96 if q else 1200, timeout=180),
        Part("type_sharing", run_type_sharing, strategy=cores(q, gap_models=("none", "flow", "no_flow", "duct_average")),
             examples=96 if q else 1200, timeout=180),
        Part("interleaving", run_interleaving, strategy=cores(q, with_schedule=True), examples=64 if q else 800, timeout=180),
    ]

"""C09 - inter-assembly gap mesh is well-formed for every core layout."""
import itertools
import math

import numpy as np
from hypothesis import strategies as st

from .. import drive, gen, geom
from ..runner import Outcome, Part

ID = "C09"
TITLE = "Inter-assembly gap mesh is well-formed for every core layout"
TECHNIQUE = "exhaustive enumeration (all 127 non-empty subsets of a 7-position core x mesh fillings) and property-based sampling (19/37-position cores) of layouts; validity predicates on Core attributes, geometric re-location of every gap cell from each neighbour, metamorphic invariance of the total gap area under re-meshing"
RULE = ("layouts_7: every non-empty subset of the 7-position core, each filled with 6 mesh assignments (single types with 2, "
        "3 and 4 rings, a no-pin type, and two mixed assignments) - complete enumeration; layouts_sampled: hypothesis "
        "draws subsets of 19- and 37-position cores and assignments of 1-3 types.  A case is non-trivial when the layout "
        "has >= 2 assemblies and at least one shared side, or a single assembly (periphery-only) otherwise; distinct = "
        "spec hash")
ASSUMPTIONS = ["Core objects are obtained from a real Reactor built from a generated input (same path as production)",
               "gap cell locations are reconstructed from own hexagonal-lattice coordinates of the positions, the "
               "published per-assembly cell boundaries (_asm_sc_xbnds) and the neighbour table"]
LEVEL_NOTE = "areas/perimeters to 1e-12 relative, locations to 1e-9 m"

F = 0.1
PITCH = 0.104


def type_defs():
    """Deterministic assembly types with the same outer duct: name -> (assembly dict, meta)."""
    out = {}

    def bundle(n_ring, p2d, wf, cf, wall=0.003, ducts=1, lowfi=False):
        ftf = [F]
        cur = F
        for d in range(ducts):
            cur -= 2 * wall
            ftf.append(cur)
            if d < ducts - 1:
                cur -= 2 * 0.002
                ftf.append(cur)
        ftf = sorted(round(x, 9) for x in ftf)
        b = geom.solve_bundle(ftf[0], n_ring, p2d, wf, cf)
        a = {"num_rings": n_ring, "pin_pitch": round(b["P"], 9), "pin_diameter": round(b["D"], 9),
             "clad_thickness": round(0.1 * b["D"], 9), "wire_pitch": round(20 * b["D"], 9),
             "wire_diameter": round(b["Dw"], 9), "duct_ftf": ftf, "duct_material": "duct_c",
             "corr_friction": "CTD", "corr_flowsplit": "CTD", "corr_mixing": "CTD"}
        if ducts > 1:
            a["bypass_gap_flow_fraction"] = 0.05
        if lowfi:
            a["use_low_fidelity_model"] = True
        meta = {"n_ring": n_ring, "n_duct": ducts, "P": a["pin_pitch"], "D": a["pin_diameter"], "Dw": a["wire_diameter"],
                "H": a["wire_pitch"], "inner_ftf": ftf[0], "p2d": p2d, "lowfi": lowfi}
        return a, meta
    out["R2"] = bundle(2, 1.25, 0.8, 0.15)
    out["R3"] = bundle(3, 1.2, 0.8, 0.1)
    out["R3b"] = bundle(3, 1.12, 0.9, 0.22, wall=0.004)       # same cell count, other pitch / corner
    out["R4"] = bundle(4, 1.18, 0.8, 0.05, ducts=2)
    out["NP"] = bundle(2, 1.25, 0.8, 0.15, lowfi=True)         # no pins: corner-only mesh
    out["R6"] = bundle(6, 1.15, 0.85, 0.05)
    return out


TYPES = None


def layout_spec(npos_rings, filled, assign):
    """Spec of a core with the given filled positions (0-based indices) and type per filled position."""
    global TYPES
    if TYPES is None:
        TYPES = type_defs()
    used = sorted(set(assign))
    spec = {"setup": {}, "materials": {
        "cool_c": {"thermal_conductivity": [70.0], "heat_capacity": [1270.0], "density": [850.0], "viscosity": [2.5e-4]},
        "duct_c": {"thermal_conductivity": [20.0], "heat_capacity": [500.0], "density": [7800.0]}},
        "core": {"coolant_inlet_temp": 600.0, "coolant_material": "cool_c", "length": 0.2, "assembly_pitch": PITCH,
                 "gap_model": "flow", "bypass_fraction": 0.05},
        "assemblies": {t: dict(TYPES[t][0]) for t in used}, "assignment": [], "power": {"total_power": 1000.0, "files": [{}]}}
    for idx, t in zip(filled, assign):
        ring, pos = gen.pos_to_ring(idx)
        spec["assignment"].append([t, ring, pos, pos, {"FLOWRATE": 1.0}])
        meta = TYPES[t][1]
        n_pin = geom.counts(meta["n_ring"])[0]
        spec["power"]["files"][0][str(idx + 1)] = {"zb": [0.0, 0.2], "pins": {"n": n_pin, "base": [[1.0]], "amp": [0.0],
                                                                          "freq": [0.0], "phase": [0.0]}}
    return spec


def lattice_xy(idx, pitch):
    """Own coordinates of position idx (0-based): ring walk on a hexagonal lattice (any fixed orientation)."""
    if idx == 0:
        return (0.0, 0.0)
    ring, pos = gen.pos_to_ring(idx)
    r = ring - 1
    p = pos - 1
    side, k = divmod(p, r)
    # corner `side` of ring r, then k steps towards the next corner
    ang0 = math.radians(60.0 * side)
    ang1 = math.radians(60.0 * (side + 1))
    cx, cy = r * math.cos(ang0), r * math.sin(ang0)
    nx, ny = r * math.cos(ang1), r * math.sin(ang1)
    x = cx + (nx - cx) * k / r
    y = cy + (ny - cy) * k / r
    return (x * pitch, y * pitch)


def check_core(o, core, filled, pitch, oftf):
    n = core.n_asm
    adj_sc = core._asm_sc_adj           # n_asm x max cells, 1-based ids, 0 = none
    nsc = core.n_sc
    S = oftf / math.sqrt(3.0)
    perim = 6.0 * S
    dgap = pitch - oftf
    o.check(abs(core.d_gap - dgap) <= 1e-15, "gap_width")
    # ---- neighbour table against own lattice coordinates --------------------------------
    xy = np.array([lattice_xy(i, pitch) for i in filled])
    asm_adj = core.asm_adj
    for a in range(n):
        d = np.hypot(xy[:, 0] - xy[a, 0], xy[:, 1] - xy[a, 1])
        want = set(int(b) for b in np.nonzero(np.abs(d - pitch) < 1e-9 * pitch)[0])
        got = set(int(b) - 1 for b in asm_adj[a] if b > 0)
        o.check(want == got, "neighbour_table", "asm %d: lattice %s table %s" % (a, sorted(want), sorted(got)))
        for s in range(6):
            b = int(asm_adj[a][s]) - 1
            if b >= 0:
                o.check(int(asm_adj[b][(s + 3) % 6]) - 1 == a, "neighbour_table_not_mutual", "asm %d side %d" % (a, s))
    # side normals: the direction to the neighbour across side s; consistent 60-degree progression
    normals = np.full((n, 6), np.nan)
    delta = None
    for pass_ in (0, 1):
      for a in range(n):
        angs = {}
        for s in range(6):
            b = int(asm_adj[a][s]) - 1
            if b >= 0:
                angs[s] = math.atan2(xy[b, 1] - xy[a, 1], xy[b, 0] - xy[a, 0])
        ss = sorted(angs)
        for s1, s2 in zip(ss, ss[1:]):
            if (s2 - s1) % 3 == 0:
                continue          # opposite sides do not tell the sense of rotation
            for cand in (math.pi / 3.0, -math.pi / 3.0):
                if abs(math.remainder((angs[s2] - angs[s1]) - cand * (s2 - s1), 2 * math.pi)) < 1e-9:
                    if delta is None:
                        delta = cand
                    o.check(delta == cand, "side_order_inconsistent", "asm %d" % a)
        if angs:
            s0 = ss[0]
            for s in range(6):
                normals[a, s] = angs[s0] + (s - s0) * (delta if delta is not None else math.pi / 3.0)
    # ---- per assembly: coverage of the perimeter ------------------------------------------
    counts = np.zeros(nsc + 1, dtype=int)
    wp = core.gap_params["asm wp"]
    scps = core._geom_params["sc_per_side"]
    loc = {}
    for a in range(n):
        ids = adj_sc[a][adj_sc[a] > 0]
        o.check(len(set(ids.tolist())) == len(ids), "cell_repeated_around_assembly", "asm %d" % a)
        o.check(len(ids) == int(np.sum(scps[a])) + 6 == int(core._n_sc_per_asm[a]), "cell_count_around_assembly",
                "asm %d: %d ids, %d expected" % (a, len(ids), int(np.sum(scps[a])) + 6))
        for i in ids:
            counts[i] += 1
        xb = core._asm_sc_xbnds[a]
        xb = xb[xb > 0]
        o.check(len(xb) == len(ids) and bool(np.all(np.diff(xb) > 0)) and xb[0] > 0 and xb[-1] < perim,
                "cell_bounds_not_increasing", "asm %d" % a)
        w = wp[a][:len(ids)]
        o.check(bool(np.all(w > 0)) and not np.any(wp[a][len(ids):]), "cell_width_not_positive", "asm %d: %s" % (a, w.min()))
        o.metric("perimeter_cover_err", abs(float(np.sum(w)) - perim) / perim)
        o.check(abs(float(np.sum(w)) - perim) <= 1e-12 * perim, "perimeter_not_covered_once",
                "asm %d: widths sum to %.12g, perimeter %.12g" % (a, float(np.sum(w)), perim))
        full = np.concatenate(([0.0], xb, [perim]))
        wfull = np.diff(full)
        wm = np.append(wfull[1:-1], wfull[0] + wfull[-1])
        o.check(np.abs(wm - w).max() <= 1e-12 * perim, "cell_width_vs_bounds", "asm %d" % a)
        # per side: corner cells sit where a side ends
        pos = 0
        for s in range(6):
            ne = int(scps[a][s])
            side_ids = ids[pos:pos + ne]
            corner_id = ids[pos + ne]
            pos += ne + 1
            # locations (only if the orientation of this assembly is known)
            if not np.isnan(normals[a, s]):
                nrm = normals[a, s]
                nxt = normals[a, s] + (delta if delta is not None else math.pi / 3.0)
                nvec = np.array([math.cos(nrm), math.sin(nrm)])
                n2 = np.array([math.cos(nxt), math.sin(nxt)])
                tvec = n2 - nvec
                tvec = tvec / np.hypot(*tvec)
                c = xy[a] + 0.5 * pitch * nvec
                bnds = full
                # cell k along this side spans bnds[start+k] .. bnds[start+k+1]
                start = 1 + sum(int(x) + 1 for x in scps[a][:s])
                for k, cid in enumerate(side_ids):
                    mid = 0.5 * (bnds[start + k - 0] + bnds[start + k + 1 - 0]) if False else 0.5 * (bnds[start + k] + bnds[start + k + 1])
                    t = mid - (s + 0.5) * S
                    p = c + t * tvec
                    loc.setdefault(int(cid), []).append((a, p, abs(bnds[start + k + 1] - bnds[start + k])))
                vtx = xy[a] + (0.5 * pitch / math.cos(math.pi / 6.0)) * (nvec + n2) / np.hypot(*(nvec + n2))
                loc.setdefault(int(corner_id), []).append((a, vtx, None))
    # ---- each cell borders 1..3 assemblies; every id is used --------------------------------
    o.check(bool(np.all(counts[1:] >= 1)) and bool(np.all(counts[1:] <= 3)), "cell_neighbour_count",
            "min %d max %d" % (counts[1:].min(), counts[1:].max()))
    types = core._sc_types
    o.check(len(types) == nsc, "cell_type_length")
    o.check(bool(np.all(counts[1:][np.array(types) == 0] <= 2)), "edge_cell_with_three_assemblies")
    # ---- a shared cell is the same place, and the same width, for all its neighbours ----------
    worst = 0.0
    for cid, lst in loc.items():
        for (a1, p1, w1), (a2, p2, w2) in itertools.combinations(lst, 2):
            dpos = float(np.hypot(*(p1 - p2)))
            worst = max(worst, dpos)
            if dpos > 1e-9:
                o.fail("shared_cell_location_differs", "cell %d seen from asm %d and %d: %.3e m apart" % (cid, a1, a2, dpos))
            if w1 is not None and w2 is not None and abs(w1 - w2) > 1e-12:
                o.fail("shared_cell_width_differs", "cell %d: %.12g vs %.12g" % (cid, w1, w2))
    o.checks += len(loc)
    o.metric("shared_cell_mismatch_m", worst)
    places = {}
    for cid, lst in loc.items():
        key = (round(lst[0][1][0], 7), round(lst[0][1][1], 7))
        places.setdefault(key, set()).add(cid)
    dup = [v for v in places.values() if len(v) > 1]
    o.check(not dup, "two_cells_at_one_place", str(dup[:3]))
    # a shared side carries the finer of the two meshes
    for a in range(n):
        for s in range(6):
            b = int(asm_adj[a][s]) - 1
            if b >= 0:
                o.check(int(scps[a][s]) == int(scps[b][(s + 3) % 6]), "shared_side_cell_count", "asm %d side %d" % (a, s))
    # ---- gap cell adjacency symmetric -----------------------------------------------------------
    sadj = core._sc_adj
    bad = []
    for i in range(nsc):
        for j in sadj[i]:
            if j > 0 and (i + 1) not in sadj[int(j) - 1]:
                bad.append((i + 1, int(j)))
    o.check(not bad, "gap_adjacency_not_symmetric", str(bad[:4]))
    L = core.gap_params["L"]
    lbad = []
    for i in range(nsc):
        for col, j in enumerate(sadj[i]):
            if j > 0:
                jj = int(j) - 1
                back = [c2 for c2, x in enumerate(sadj[jj]) if x == i + 1]
                if back and abs(L[i, col] - L[jj, back[0]]) > 1e-12:
                    lbad.append((i + 1, int(j), float(L[i, col]), float(L[jj, back[0]])))
    o.check(not lbad, "gap_centroid_distance_not_symmetric", str(lbad[:3]))
    # ---- areas and flow split --------------------------------------------------------------------
    area = core.gap_params["area"]
    o.check(bool(np.all(area > 0)), "cell_area_not_positive")
    tot = float(np.sum(area))
    o.check(abs(core.gap_params["total area"] - tot) <= 1e-14 * tot, "total_area_sum")
    m = core._sc_mfr
    o.check(abs(float(np.sum(m)) - core.gap_flow_rate) <= 1e-12 * core.gap_flow_rate, "gap_flow_sum",
            "%.12g vs %.12g" % (float(np.sum(m)), core.gap_flow_rate))
    o.check(np.abs(m / core.gap_flow_rate - area / tot).max() <= 1e-14, "gap_flow_not_proportional_to_area")
    return tot


def run_layout(spec):
    o = Outcome()
    filled = spec["filled"]
    areas = {}
    shared = 0
    for name, assign in spec["fillings"].items():
        sp = layout_spec(spec["rings"], filled, assign)
        with drive.Case(sp) as c:
            try:
                r = c.setup()
            except drive.Crashed as e:
                o.fail("core_load_crash:" + e.signature, "%s filling %s" % (e, name))
                continue
            core = r.core
            areas[name] = check_core(o, core, filled, PITCH, F)
            shared = int(np.sum(core.asm_adj > 0)) // 2
    if len(areas) >= 2:
        vals = list(areas.values())
        spread = (max(vals) - min(vals)) / max(vals)
        o.metric("total_area_spread_rel", spread)
        o.check(spread <= 1e-12, "total_gap_area_depends_on_mesh", str({k: "%.12g" % v for k, v in areas.items()}))
    o.classes["n_asm"] = len(filled)
    o.classes["shared_sides"] = min(shared, 12)
    o.classes["core_rings"] = spec["rings"]
    o.nontrivial = len(areas) >= 2 and (shared >= 1 or len(filled) == 1)
    o.sample = {"filled": filled, "fillings": {k: v[:8] for k, v in spec["fillings"].items()}}
    return o


def fillings_for(filled):
    n = len(filled)
    cyc = ["R3", "R2", "NP", "R4", "R3b"]
    return {"all_R2": ["R2"] * n, "all_R3": ["R3"] * n, "all_R4dd": ["R4"] * n, "all_nopin": ["NP"] * n,
            "mixed_a": [cyc[i % 5] for i in filled], "mixed_b": [cyc[(2 * i + 1) % 5] for i in filled],
            "mixed_c": [["R3", "R3b"][i % 2] for i in filled]}


def cases_7():
    out = []
    for k in range(1, 128):
        filled = [i for i in range(7) if k >> i & 1]
        rings = 2 if any(i > 0 for i in filled) else 1
        out.append({"rings": rings, "filled": filled, "fillings": fillings_for(filled)})
    return out


@st.composite
def sampled(draw, rings):
    cr = draw(st.sampled_from(list(rings)))
    npos = gen.n_positions(cr)
    keep = draw(st.lists(st.booleans(), min_size=npos, max_size=npos))
    filled = [i for i in range(npos) if keep[i]]
    outer0 = gen.n_positions(cr - 1)
    if not any(i >= outer0 for i in filled):
        filled.append(outer0 + draw(st.integers(0, npos - outer0 - 1)))
    filled = sorted(set(filled))
    names = draw(st.lists(st.sampled_from(["R2", "R3", "R3b", "R4", "NP", "R6"]), min_size=1, max_size=3, unique=True))
    a1 = [draw(st.sampled_from(names)) for _ in filled]
    a2 = [draw(st.sampled_from(names)) for _ in filled]
    return {"rings": cr, "filled": filled, "fillings": {"gen_a": a1, "gen_b": a2, "all_R2": ["R2"] * len(filled)}}


def parts(tier):
    q = tier == "quick"
    return [
        Part("layouts_7", run_layout, cases=cases_7(), exhaustive=True, timeout=120,
             note="all 127 non-empty subsets of the 7-position core x 7 mesh fillings"),
        Part("layouts_sampled", run_layout, strategy=sampled((3,) if q else (3, 4)), examples=24 if q else 600,
             timeout=300),
    ]

"""C02 - inter-assembly heat exchange is conservative; core balance closes."""
import numpy as np
from hypothesis import strategies as st

from .. import drive, gen, observe
from ..runner import Outcome, Part

ID = "C02"
TITLE = "Inter-assembly heat exchange is conservative; core balance closes"
TECHNIQUE = "property-based testing (Hypothesis): per-step and whole-sweep conservation identities between assemblies and gap on generated cores (1/7/19/37 positions, empty positions, mixed meshes, identical and nearly identical twin assemblies)"
RULE = ("generated cores of 1, 7 or 19 positions (empty positions, periphery, 1-3 assembly types with different ring "
        "counts, double ducts, low-fidelity types), constant-property coolant, flowing gap (and gap_model none for the "
        "adiabatic clause), driven step by step.  Non-trivial: >= 2 assemblies with different duct meshes or an empty "
        "neighbour/periphery, and |gap heat| > 1e-6 of the power; distinct = spec hash")
ASSUMPTIONS = ["constant-property coolant and duct (round-off identities)",
               "assemblies whose model is not discretely conservative by construction are excluded from the per-assembly "
               "identity and reported as classes: stagnant bypass (no enthalpy flow), conv_approx with duct heating "
               "(finding F14); six-node regions are compared with the one-level lag the property states"]
LEVEL_NOTE = "tolerance 1e-9 relative per step, 1e-10 of the power for the whole sweep"

TOL = 1e-9


def asm_kind(asm):
    kinds = set()
    for reg in asm.region:
        if reg.is_rodded:
            if reg.n_bypass > 0 and float(np.sum(reg.byp_flow_rate)) == 0.0:
                kinds.add("stagnant")
            else:
                kinds.add("rodded")
        else:
            kinds.add(getattr(reg, "model", "simple"))
    return kinds


def run_flow(spec):
    o = Outcome()
    with drive.Case(spec) as c:
        r = c.setup()
        core = r.core
        asms = r.assemblies
        n = len(asms)
        cp = float(core.gap_coolant.heat_capacity)
        kinds = [asm_kind(a) for a in asms]
        o.classes["n_asm"] = n
        o.classes["core_rings"] = spec["_meta"]["core_rings"]
        meshes = set(a.active_region.temp["duct_mw"].shape[1] for a in asms)
        o.classes["mixed_meshes"] = len(meshes) > 1
        npos = gen.n_positions(spec["_meta"]["core_rings"])
        o.classes["has_empty"] = n < npos
        conv = [any(getattr(g, "_conv_approx", False) for g in a.region) for a in asms]
        o.classes["any_conv_approx"] = any(conv)
        o.classes["any_stagnant"] = any("stagnant" in k for k in kinds)
        o.classes["any_6node"] = any("6node" in k for k in kinds)
        o.classes["any_lowfi"] = any(k & {"simple", "6node"} for k in kinds)
        state = {}
        fails = {}
        worst = {"gap": 0.0, "asm": 0.0, "step": 0.0}
        tot = {"gapheat": 0.0, "P": 0.0}
        pending6 = {}

        def before(i, z, dz):
            state["Tg"] = core.coolant_gap_temp.copy()
            state["eb"] = core.ebal["asm"].copy()
            state["snap"] = [observe.snapshot(a.active_region) for a in asms]
            state["pd"] = [observe.total_power_delivered(a) for a in asms]

        def after(i, z, dz, regs):
            dTg = core.coolant_gap_temp - state["Tg"]
            dHg = cp * float(np.dot(core._sc_mfr, dTg))
            deb = core.ebal["asm"] - state["eb"]
            credited = float(np.sum(deb))
            sc = max(abs(credited), cp * float(np.dot(core._sc_mfr, np.abs(dTg))), 1e-300)
            # (a) gap enthalpy rise == heat credited from all duct walls; conduction between cells cancels
            res = dHg - credited
            worst["gap"] = max(worst["gap"], abs(res) / sc)
            # (absolute floor: round-off of representing T ~ T0 in the enthalpy flow of the gap)
            if abs(res) > TOL * sc + 1e-13 * cp * float(np.sum(core._sc_mfr)) * T0:
                fails.setdefault("gap_cells_balance", "step %d: gap dH %.6e vs credited %.6e" % (i, dHg, credited))
            tot["gapheat"] += abs(credited)
            lost_total = 0.0
            scale_total = sc
            floor_total = 1e-13 * cp * float(np.sum(core._sc_mfr)) * T0
            exact_all = True
            for k, a in enumerate(asms):
                reg = regs[k]
                snap = state["snap"][k]
                cpa = snap["cp"]
                dP = sum(observe.total_power_delivered(a).values()) - sum(state["pd"][k].values())
                dH = 0.0
                mag = abs(dP)
                for (n0, m0, t0), (n1, m1, t1) in zip(snap["T"], observe.streams(reg)):
                    dH += cpa * float(np.dot(m1, t1 - t0))
                    mag = max(mag, cpa * float(np.dot(m1, np.abs(t1 - t0))))
                # (absolute floor: round-off of representing T ~ T0 in the enthalpy flow of the assembly's streams)
                floor = 1e-13 * cpa * sum(float(np.sum(m1)) for (n1, m1, t1) in observe.streams(reg)) * T0
                floor_total += floor
                lost = dP - dH                       # heat that left the assembly's coolant+ducts in this step
                cred = float(np.sum(deb[k]))         # heat the gap was credited from this assembly
                lost_total += lost
                scale_total = max(scale_total, mag)
                kind = asm_kind_of(reg)
                exact = kind == "rodded" and not (conv[k] and abs(observe.total_power_delivered(a)["duct"]
                                                                - state["pd"][k]["duct"]) > 0)
                if kind == "simple" and not conv[k]:
                    exact = True
                if kind == "6node":
                    # coolant of level j+1 is advanced with the wall of level j: what the gap was credited in the
                    # previous step is what the coolant loses now
                    # (both per unit length: the two steps need not be equally long)
                    prev = pending6.get(k)
                    pending6[k] = (cred / dz, id(reg))
                    if prev is not None and prev[1] == id(reg) and not conv[k]:
                        s6 = max(abs(prev[0]), mag / dz, 1e-300)
                        worst["asm"] = max(worst["asm"], abs(lost / dz - prev[0]) / s6)
                        if abs(lost / dz - prev[0]) > TOL * s6 + floor / dz:
                            fails.setdefault("asm_wall_heat_6node_lag", "step %d asm %d: lost %.6e W/m vs credited "
                                             "one level earlier %.6e W/m" % (i, k, lost / dz, prev[0]))
                    exact_all = False
                    continue
                pending6.pop(k, None)
                if not exact:
                    exact_all = False
                    continue
                s = max(abs(cred), mag, 1e-300)
                worst["asm"] = max(worst["asm"], abs(lost - cred) / s)
                if abs(lost - cred) > TOL * s + floor:
                    fails.setdefault("asm_wall_heat_vs_gap_credit", "step %d asm %d (%s): lost %.6e vs credited %.6e"
                                     % (i, k, kind, lost, cred))
            # (a') tally-free: everything the assemblies lose in a step is what the gap coolant gains
            if exact_all:
                rs = lost_total - dHg
                worst["step"] = max(worst["step"], abs(rs) / scale_total)
                if abs(rs) > TOL * scale_total + floor_total:
                    fails.setdefault("core_step_balance", "step %d: assemblies lose %.6e, gap gains %.6e"
                                     % (i, lost_total, dHg))

        T0 = float(spec["core"]["coolant_inlet_temp"])
        drive.sweep(r, before, after)
        for k, v in fails.items():
            o.fail(k, v)
        o.checks += 3 * (len(r.z) - 1)
        # (c) whole sweep
        P = sum(sum(observe.total_power_delivered(a).values()) for a in asms)
        H = 0.0
        for a in asms:
            reg = a.active_region
            cpa = float(reg.coolant.heat_capacity)
            for _, m, t in observe.streams(reg):
                H += cpa * float(np.dot(m, t - T0))
        Hg = cp * float(np.dot(core._sc_mfr, core.coolant_gap_temp - T0))
        clean = not (o.classes["any_stagnant"] or o.classes["any_6node"] or
                     (o.classes["any_conv_approx"] and any(observe.total_power_delivered(a)["duct"] > 0 for a in asms)))
        # regions that ended before the outlet also matter: a stagnant bypass anywhere breaks the global balance
        resid = (H + Hg - P) / max(P, 1e-300)
        o.metric("sweep_residual_rel" + ("" if clean else "_excluded_classes"), abs(resid))
        if clean and P > 0:
            # (absolute floor: per-step round-off of representing T ~ T0 in every enthalpy flow, accumulated over the sweep)
            mtot = float(np.sum(core._sc_mfr)) + sum(float(np.sum(m)) for a in asms for _, m, t in observe.streams(a.active_region))
            sweep_floor = 1e-13 * cp * mtot * T0 * len(r.z)
            o.check(abs(H + Hg - P) <= 1e-9 * P + sweep_floor, "core_sweep_balance", "coolant %.8e + gap %.8e - power %.8e = %.3e of P"
                    % (H, Hg, P, resid))
        o.metric("gap_balance_rel", worst["gap"])
        o.metric("asm_credit_rel", worst["asm"])
        o.metric("core_step_rel", worst["step"])
        o.classes["clean"] = clean
        o.nontrivial = (n >= 2 and (o.classes["mixed_meshes"] or o.classes["has_empty"])
                        and tot["gapheat"] > 1e-6 * max(P, 1e-300))
    return o


def asm_kind_of(reg):
    if reg.is_rodded:
        if reg.n_bypass > 0 and float(np.sum(reg.byp_flow_rate)) == 0.0:
            return "stagnant"
        return "rodded"
    return getattr(reg, "model", "simple")


def run_adiabatic(spec):
    """gap_model none: no heat crosses any outer duct wall."""
    o = Outcome()
    with drive.Case(spec) as c:
        r = c.setup()
        asms = r.assemblies
        o.classes["n_asm"] = len(asms)
        o.classes["twins"] = min(sum(1 for p_ in spec["_meta"]["pos"] if "twin_of" in p_), 3)
        o.classes["near_twins"] = min(sum(1 for p_ in spec["_meta"]["pos"] if p_.get("near_twin")), 3)
        T0 = float(spec["core"]["coolant_inlet_temp"])
        kinds = [asm_kind(a) for a in asms]
        conv = [any(getattr(g, "_conv_approx", False) for g in a.region) for a in asms]
        fails = {}
        worst = [0.0]
        g0 = r.core.coolant_gap_temp.copy()

        def after(i, z, dz, regs):
            if not np.array_equal(r.core.coolant_gap_temp, g0):
                fails.setdefault("gap_temperature_changed", "step %d" % i)
            for k, reg in enumerate(regs):
                # outer wall adiabatic: zero gradient at the outer surface of the outer duct, i.e. with an unheated
                # wall the outer surface equals the mid-wall value; with heating the parabola has its vertex there
                pass
        drive.sweep(r, None, after)
        for k, v in fails.items():
            o.fail(k, v)
        # per assembly: everything delivered stays in the assembly's flowing coolant
        for k, a in enumerate(asms):
            if "stagnant" in kinds[k] or "6node" in kinds[k]:
                continue
            pd = observe.total_power_delivered(a)
            if conv[k] and pd["duct"] > 0:
                continue
            P = sum(pd.values())
            reg = a.active_region
            cpa = float(reg.coolant.heat_capacity)
            H = sum(cpa * float(np.dot(m, t - T0)) for _, m, t in observe.streams(reg))
            # absolute floor: round-off of representing T ~ T0 in the enthalpy flow (a zero-power assembly leaves 1e-16 m cp T0)
            floor = 1e-13 * cpa * sum(float(np.sum(m)) for _, m, _ in observe.streams(reg)) * T0
            res = max(abs(H - P) - floor, 0.0) / max(P, 1e-300)
            worst[0] = max(worst[0], res)
            o.check(res <= 1e-9, "adiabatic_assembly_balance", "asm %d: coolant %.8e vs power %.8e" % (k, H, P))
        o.metric("adiabatic_residual_rel", worst[0])
        o.nontrivial = len(asms) >= 2 and len(r.z) > 20
    return o


def parts(tier):
    q = tier == "quick"
    return [
        Part("flowing_gap", run_flow,
             strategy=gen.core_spec(core_rings=(2, 2) if q else (1, 3), n_types=(2, 3),
                                    rings=(2, 4) if q else (2, 6), ducts=(1, 3),
                                    gap_models=("flow",), n_steps=(25, 80), regimes=("lam", "tra", "tur"),
                                    byp_frac=(0.02, 0.3), conv_approx=True, regions=True),
             examples=64 if q else 1500, timeout=120),
        Part("flowing_gap_37_positions", run_flow,
             strategy=gen.core_spec(core_rings=(4, 4), n_types=(2, 3), rings=(2, 3), ducts=(1, 2),
                                    gap_models=("flow",), n_steps=(10, 25), regimes=("lam", "tra", "tur"),
                                    byp_frac=(0.02, 0.3), regions=True, twins=True),
             examples=8 if q else 200, timeout=240),
        Part("adiabatic", run_adiabatic,
             strategy=gen.core_spec(core_rings=(1, 2), rings=(2, 4), ducts=(1, 3), gap_models=("none",),
                                    n_steps=(25, 60), regimes=("lam", "tra", "tur"), regions=True, twins=True),
             examples=24 if q else 400),
    ]

"""C08 - bundle topology and geometry are well-formed for every ring count."""
import math

import numpy as np
from hypothesis import strategies as st

from .. import gen, geom
from ..runner import Outcome, Part

ID = "C08"
TITLE = "Bundle topology and geometry are well-formed for every ring count"
RULE = ("part topology_exhaustive: every (ring count, duct count, se2geo) combination once with canonical "
        "dimensions (finite space, enumerated completely in the thorough tier: rings 2..20 x ducts 1..3 x "
        "se2 on/off; quick: rings 2..12); part geometry_generated: hypothesis draws ring count, duct "
        "count, P/D, wire fraction, clearance, H/D, wall/bypass thicknesses.  A case is non-trivial when "
        "the bundle could be constructed and all clause groups (counts, adjacency, pin incidence, "
        "centroids, rotation equivariance, area tiling) were evaluated; distinct = distinct spec hash.")
ASSUMPTIONS = ["RoddedRegion is constructed directly with constant-property materials (the same call "
               "region_rodded.make issues)",
               "reference areas come from vf/geom.py (hexagon minus pins minus elliptical wire sections), "
               "written independently of dassh"]
EXPLANATION = "exhaustive flag refers to the structural space (rings x ducts x se2geo) only"

TOL = 1e-11


def mats():
    import dassh
    cool = dassh.Material("c08cool", coeff_dict={"thermal_conductivity": [70.0], "heat_capacity": [1270.0],
                                                 "density": [850.0], "viscosity": [2.5e-4]})
    duct = dassh.Material("c08duct", coeff_dict={"thermal_conductivity": [20.0], "heat_capacity": [500.0],
                                                 "density": [7800.0]})
    return cool, duct


def ordered_ftf(spec):
    """The duct flat-to-flat list as written in the input: spec["ftf"] is ascending (the reference); the reader accepts the
    two values of a duct in either order ("inferred based on whichever is greater") and the ducts in any order."""
    f = list(spec["ftf"])
    order = spec.get("ftf_order", "ascending")
    pairs = [f[i:i + 2] for i in range(0, len(f), 2)]
    if order == "pairs_reversed":
        pairs = [p[::-1] for p in pairs]
    elif order == "ducts_reversed":
        pairs = pairs[::-1]
    elif order == "descending":
        pairs = [p[::-1] for p in pairs[::-1]]
    return [x for p in pairs for x in p]


def build_region(spec):
    from dassh import region_rodded
    cool, duct = mats()
    nd = len(spec["ftf"]) // 2
    return region_rodded.RoddedRegion(
        "c08", spec["n_ring"], spec["P"], spec["D"], spec["H"], spec["Dw"], 0.1 * spec["D"],
        ordered_ftf(spec), 1.0, cool, duct, None, "CTD", "CTD", "CTD", "DB", None, None,
        0.05 if nd > 1 else None, None, spec.get("wire_dir", "clockwise"), 1.0,
        bool(spec.get("se2")), 0.0, False)


def canonical(n_ring, n_duct, se2):
    F = 0.12
    ftf = [F]
    cur = F
    for d in range(n_duct):
        cur -= 2 * 0.003
        ftf.append(cur)
        if d < n_duct - 1:
            cur -= 2 * 0.002
            ftf.append(cur)
    ftf = sorted(round(x, 9) for x in ftf)
    b = geom.solve_bundle(ftf[0] - 1e-7, n_ring, 1.18, 0.8, 0.08)
    return {"n_ring": n_ring, "ftf": ftf, "P": round(b["P"], 10), "D": round(b["D"], 10),
            "Dw": round(b["Dw"], 10), "H": round(25 * b["D"], 9), "se2": se2}


@st.composite
def generated(draw, rings):
    n_ring = draw(st.integers(*rings))
    n_duct = draw(st.integers(1, 3))
    F = round(draw(gen.fl(0.02, 0.25)), 6)
    ftf = draw(gen.duct_stack(F, n_duct))
    p2d = draw(gen.fl(1.01, 1.6))
    wf = draw(st.sampled_from([0.0]) | gen.fl(0.05, 1.0))
    cf = draw(gen.fl(0.0, 0.6))
    b = geom.solve_bundle(ftf[0] * (1 - 1e-7), n_ring, p2d, wf, cf)
    H = draw(gen.fl(4.0, 80.0)) * b["D"] if b["Dw"] > 0 else 0.0
    return {"n_ring": n_ring, "ftf": ftf, "P": round(b["P"], 10), "D": round(b["D"], 10),
            "Dw": round(b["Dw"], 10), "H": round(H, 9), "se2": draw(st.booleans()),
            "wire_dir": draw(st.sampled_from(["clockwise", "counterclockwise"])),
            "ftf_order": draw(st.sampled_from(["ascending", "ascending", "pairs_reversed", "ducts_reversed", "descending"]))}


def rot60(xy, k=1):
    a = -k * math.pi / 3.0      # clockwise, matching the numbering direction
    c, s = math.cos(a), math.sin(a)
    return np.column_stack((c * xy[:, 0] - s * xy[:, 1], s * xy[:, 0] + c * xy[:, 1]))


def match(xy_from, xy_to, tol):
    """perm with xy_to[perm[i]] == xy_from[i]; None if not a bijection within tol."""
    perm = np.full(len(xy_from), -1, dtype=int)
    for i, p in enumerate(xy_from):
        d = np.hypot(xy_to[:, 0] - p[0], xy_to[:, 1] - p[1])
        j = int(np.argmin(d))
        if d[j] > tol:
            return None
        perm[i] = j
    if len(set(perm.tolist())) != len(perm):
        return None
    return perm


def run(spec):
    from .. import drive
    o = Outcome()
    n = spec["n_ring"]
    nd = len(spec["ftf"]) // 2
    o.classes.update({"n_ring": n, "n_duct": nd, "ftf_order": spec.get("ftf_order", "ascending"), "se2": bool(spec.get("se2")),
                      "bare": spec["Dw"] == 0.0})
    try:
        rr = drive.guarded("construct", build_region, spec)
    except drive.Crashed as e:
        o.fail("construct:" + e.signature, str(e))
        return o
    except drive.Rejected as e:
        o.fail("construct:rejected", str(e))
        return o
    sc = rr.subchannel
    ty = sc.type
    adj = sc.sc_adj
    n_pin, n_int, n_edge, n_cor = geom.counts(n)
    nc = n_int + n_edge + n_cor
    ndc = n_edge + n_cor

    # ---- counts -------------------------------------------------------------------------
    o.check(rr.n_pin == n_pin and rr.pin_lattice.xy.shape[0] == n_pin, "count_pins")
    o.check(int(np.sum(ty[:nc] == 0)) == n_int and int(np.sum(ty[:nc] == 1)) == n_edge
            and int(np.sum(ty[:nc] == 2)) == n_cor and np.all(ty[:n_int] == 0), "count_coolant_types",
            "%s" % [int(np.sum(ty[:nc] == t)) for t in range(3)])
    o.check(len(ty) == nc + (2 * nd - 1) * ndc == sc.n_sc["total"] == len(adj) == len(sc.xy),
            "count_total", "%d types, %d adj rows, %d xy" % (len(ty), len(adj), len(sc.xy)))
    ok = True
    for r in range(2 * nd - 1):
        seg = ty[nc + r * ndc: nc + (r + 1) * ndc]
        e, c = (3, 4) if r % 2 == 0 else (5, 6)
        ok &= int(np.sum(seg == e)) == n_edge and int(np.sum(seg == c)) == 6
    o.check(ok, "count_duct_bypass_types")

    # ---- adjacency ----------------------------------------------------------------------
    nbr = [set(int(j) for j in row if j >= 0) for row in adj]
    o.check(all(i not in s for i, s in enumerate(nbr)), "adj_self_loop")
    o.check(all(0 <= j < len(adj) for s in nbr for j in s), "adj_range")
    asym = [(i, j) for i, s in enumerate(nbr) for j in s if j < len(nbr) and i not in nbr[j]]
    o.check(not asym, "adj_symmetric", "first asymmetric pairs %s" % asym[:4])
    dup = [i for i, row in enumerate(adj) if len([j for j in row if j >= 0]) != len(nbr[i])]
    o.check(not dup, "adj_duplicate", str(dup[:4]))
    bad = []
    for i in range(len(adj)):
        t = int(ty[i])
        cnt = {}
        for j in nbr[i]:
            cnt[int(ty[j])] = cnt.get(int(ty[j]), 0) + 1
        cool = cnt.get(0, 0) + cnt.get(1, 0) + cnt.get(2, 0)
        if t == 0:
            good = cool == 3 and len(nbr[i]) == 3 and cnt.get(2, 0) == 0
        elif t == 1:
            good = cnt.get(0, 0) == 1 and cnt.get(1, 0) + cnt.get(2, 0) == 2 and cnt.get(3, 0) == 1 \
                and len(nbr[i]) == 4
        elif t == 2:
            good = cnt.get(1, 0) == 2 and cnt.get(0, 0) == 0 and cnt.get(4, 0) == 1 and len(nbr[i]) == 3
        else:
            ring = (i - nc) // ndc
            same = cnt.get(t, 0) + cnt.get(t + 1 if t in (3, 5) else t - 1, 0)
            inward = 1
            outward = 1 if ring < 2 * nd - 2 else 0
            good = same == 2 and len(nbr[i]) == 2 + inward + outward
            # the radial neighbours are the same position on the adjacent rings
            pos = (i - nc) % ndc
            if ring == 0:
                good &= (n_int + pos) in nbr[i]
            else:
                good &= (i - ndc) in nbr[i]
            if outward:
                good &= (i + ndc) in nbr[i]
        if not good:
            bad.append((i, t, sorted(nbr[i])))
    o.check(not bad, "adj_neighbour_count", str(bad[:3]))
    # exterior coolant ring, duct and bypass rings are closed cycles in index order
    ok = True
    for start, m in [(n_int, ndc)] + [(nc + r * ndc, ndc) for r in range(2 * nd - 1)]:
        for p in range(m):
            ok &= (start + (p + 1) % m) in nbr[start + p]
    o.check(ok, "adj_ring_cycle")

    # ---- pin incidence ------------------------------------------------------------------
    from dassh.region_rodded import q_p2sc
    padj = sc.pin_adj
    rev = sc.rev_pin_adj
    o.check(padj.shape == (n_pin, 6) and rev.shape == (nc, 3), "pin_adj_shape")
    frac_bad, geo_bad = [], []
    pxy = rr.pin_lattice.xy
    for p in range(n_pin):
        scs = [int(s) for s in padj[p] if s >= 0]
        f = sum(q_p2sc[ty[s]] for s in scs)
        if abs(f - 1.0) > 1e-12 or len(set(scs)) != len(scs) or any(s >= nc for s in scs):
            frac_bad.append((p, scs, f))
    o.check(not frac_bad, "pin_fraction_sum", str(frac_bad[:3]))
    o.metric("pin_fraction_err", 0.0)
    want = {0: 3, 1: 2, 2: 1}
    inc_bad = []
    for s in range(nc):
        pins = sorted(int(p) for p in rev[s] if p >= 0)
        fwd = sorted(p for p in range(n_pin) if s in [int(x) for x in padj[p]])
        if pins != fwd or len(pins) != want[int(ty[s])]:
            inc_bad.append((s, int(ty[s]), pins, fwd))
    o.check(not inc_bad, "pin_sc_incidence", str(inc_bad[:3]))
    # every interior subchannel is equidistant (P/sqrt3) from its three pins
    P, D = spec["P"], spec["D"]
    worst = 0.0
    for s in range(n_int):
        for p in rev[s]:
            if p >= 0:
                worst = max(worst, abs(np.hypot(*(sc.xy[s] - pxy[p])) - P / geom.SQ3))
    o.metric("int_sc_pin_dist_err_rel", worst / P)
    o.check(worst <= TOL * max(1.0, n) * P * 10, "centroid_pin_distance", "%.3e" % worst)
    # pin lattice: nearest-neighbour distance is P, ring r has 6r pins on the hexagon of radius r P
    dmin = min(np.hypot(*(pxy[i] - pxy[j])) for i in range(min(n_pin, 40)) for j in range(n_pin) if i != j)
    o.check(abs(dmin - P) <= 1e-9 * P, "pin_pitch", "%.12g vs %.12g" % (dmin, P))

    # ---- centroid distances vs adjacency --------------------------------------------------
    e2d = 0.5 * (spec["ftf"][0] - geom.SQ3 * P * (n - 1))
    ref = {(0, 0): P / geom.SQ3, (0, 1): 0.5 * (P / geom.SQ3 + e2d), (1, 1): P}
    groups = {}
    for i in range(nc):
        for j in nbr[i]:
            if j < nc and j > i:
                key = (min(int(ty[i]), int(ty[j])), max(int(ty[i]), int(ty[j])))
                groups.setdefault(key, []).append(float(np.hypot(*(sc.xy[i] - sc.xy[j]))))
    scale = spec["ftf"][0]
    for key, v in groups.items():
        spread = max(v) - min(v)
        o.metric("centroid_spread_rel", spread / scale)
        o.check(spread <= 1e-10 * scale, "centroid_distance_uniform_%d%d" % key, "%.3e" % spread)
        if key in ref:
            err = max(abs(x - ref[key]) for x in v)
            o.metric("centroid_ref_err_rel", err / scale)
            o.check(err <= 1e-10 * scale, "centroid_distance_%d%d" % key, "%.3e vs %.12g" % (err, ref[key]))
            o.check(abs(rr.L[key[0]][key[1]] - ref[key]) <= 1e-12 * scale, "L_table_%d%d" % key)
    o.check(rr.L[0][1] == rr.L[1][0] and rr.L[1][2] == rr.L[2][1], "L_table_symmetric")

    # ---- duct and bypass ring centroids sit on the mid-surface of their annulus -------------
    ftfs = [spec["ftf"][0]] + list(spec["ftf"])    # ring r (0 = first duct) spans ftfs[r+1]..ftfs[r+2]
    worst = 0.0
    for rr_ in range(2 * nd - 1):
        lo_, hi_ = spec["ftf"][rr_], spec["ftf"][rr_ + 1]
        apo = 0.25 * (lo_ + hi_)
        seg = slice(nc + rr_ * ndc, nc + (rr_ + 1) * ndc)
        xy_ = sc.xy[seg]
        t_ = ty[seg]
        rad = np.hypot(xy_[:, 0], xy_[:, 1])
        ang = np.arctan2(xy_[:, 1], xy_[:, 0])
        # distance from the centre measured along the nearest face normal (normals at 0, 60, ... degrees)
        nrm = np.round(ang / (np.pi / 3.0)) * (np.pi / 3.0)
        proj = rad * np.cos(ang - nrm)
        edge_ = (t_ == t_.min())
        if np.any(edge_):
            worst = max(worst, float(np.max(np.abs(proj[edge_] - apo))))
        # corner cells lie on the diagonals (30, 90, ... degrees) at the mid-surface corner
        diag = (np.round((ang - np.pi / 6.0) / (np.pi / 3.0)) * (np.pi / 3.0)) + np.pi / 6.0
        cor_ = ~edge_
        worst = max(worst, float(np.max(np.abs(rad[cor_] * np.cos(ang[cor_] - diag[cor_]) - apo / np.cos(np.pi / 6.0)))))
        worst = max(worst, float(np.max(np.abs(rad[cor_] * np.sin(ang[cor_] - diag[cor_])))))
    o.metric("ring_centroid_err_rel", worst / scale)
    o.check(worst <= 1e-10 * scale, "ring_centroid_off_midsurface", "%.3e m" % worst)

    # ---- six-fold symmetry and rotation equivariance of the topology -----------------------
    tol = 1e-9 * scale
    perm_sc = match(rot60(sc.xy), sc.xy, tol)
    perm_pin = match(rot60(pxy), pxy, tol)
    o.check(perm_sc is not None, "sc_sixfold", "rotated subchannel centroids do not map onto themselves")
    o.check(perm_pin is not None, "pin_sixfold")
    if perm_sc is not None:
        o.check(bool(np.all(ty[perm_sc] == ty)), "rotation_keeps_type")
        rot_bad = [i for i in range(len(nbr)) if set(int(perm_sc[j]) for j in nbr[i]) != nbr[int(perm_sc[i])]]
        o.check(not rot_bad, "rotation_keeps_adjacency", str(rot_bad[:4]))
        # clockwise numbering: exterior rings are shifted by one hex side
        ext = np.arange(n_int, nc)
        o.check(bool(np.all(perm_sc[ext] == n_int + (ext - n_int + n) % ndc)), "rotation_shifts_ring")
        if perm_pin is not None:
            rp = [i for i in range(n_pin)
                  if set(int(perm_sc[s]) for s in padj[i] if s >= 0)
                  != set(int(s) for s in padj[int(perm_pin[i])] if s >= 0)]
            o.check(not rp, "rotation_keeps_pin_incidence", str(rp[:4]))

    # ---- areas ----------------------------------------------------------------------------
    se2 = bool(spec.get("se2"))
    Dw, H = spec["Dw"], spec["H"]
    cosw = 1.0 if se2 else geom.wire_cos(D, Dw, H)
    hexin = geom.hex_area(spec["ftf"][0])
    A = rr.params["area"]
    flow = n_int * A[0] + n_edge * A[1] + n_cor * A[2]
    solid = n_pin * math.pi / 4.0 * (D * D + Dw * Dw / cosw)
    err = abs(flow + solid - hexin) / hexin
    o.metric("area_closure_rel", err)
    o.check(err <= 1e-11, "area_closure", "%.3e (flow %.6g solid %.6g hex %.6g)" % (err, flow, solid, hexin))
    o.check(abs(rr.bundle_params["area"] - flow) <= 1e-13 * hexin, "bundle_area_sum")
    o.check(abs(float(np.sum(rr.area["coolant_int"])) - flow) <= 1e-12 * hexin
            and abs(rr.total_area["coolant_int"] - flow) <= 1e-12 * hexin, "region_area_sum")
    o.check(bool(np.all(np.asarray(A) > 0)), "area_positive", str(A))
    wp = rr.params["wp"]
    wp_tot = n_int * wp[0] + n_edge * wp[1] + n_cor * wp[2]
    wp_ref = 6.0 / geom.SQ3 * spec["ftf"][0] + n_pin * math.pi * (D + Dw / cosw)
    o.metric("wp_closure_rel", abs(wp_tot - wp_ref) / wp_ref)
    o.check(abs(wp_tot - wp_ref) <= 1e-11 * wp_ref, "wetted_perimeter_closure",
            "%.12g vs %.12g" % (wp_tot, wp_ref))
    for i in range(nd):
        ann = geom.hex_area(spec["ftf"][2 * i + 1]) - geom.hex_area(spec["ftf"][2 * i])
        got = float(np.sum(rr.area["duct_mw"][i]))
        o.metric("duct_tile_rel", abs(got - ann) / ann)
        o.check(abs(got - ann) <= 1e-10 * ann, "duct_tiling_%d" % i, "%.12g vs %.12g" % (got, ann))
        o.check(abs(rr.duct_params["total area"][i] - ann) <= 1e-10 * ann, "duct_total_area_%d" % i)
    for i in range(nd - 1):
        ann = geom.hex_area(spec["ftf"][2 * i + 2]) - geom.hex_area(spec["ftf"][2 * i + 1])
        got = float(np.sum(rr.area["coolant_byp"][i]))
        o.metric("bypass_tile_rel", abs(got - ann) / ann)
        o.check(abs(got - ann) <= 1e-10 * ann, "bypass_tiling_%d" % i, "%.12g vs %.12g" % (got, ann))
        o.check(abs(rr.bypass_params["total area"][i] - ann) <= 1e-10 * ann, "bypass_total_area_%d" % i)
    xb = rr.calculate_xbnds()
    per = 6.0 / geom.SQ3 * spec["ftf"][-1]
    o.check(len(xb) == ndc + 2 and xb[0] == 0.0 and bool(np.all(np.diff(xb) > 0)), "xbnds_monotone")
    o.check(abs(xb[-1] - per) <= 1e-12 * per, "xbnds_perimeter")
    w = np.diff(xb)
    # first and last cell are the two halves of the top corner cell
    o.check(abs(w[0] - w[-1]) <= 1e-10 * per and abs(float(np.sum(w)) - per) <= 1e-12 * per, "xbnds_split_corner",
            "%.6g %.6g" % (w[0], w[-1]))
    o.nontrivial = True
    o.sample = dict(spec)
    return o


def parts(tier):
    rmax = 12 if tier == "quick" else 20
    cases = [canonical(n, nd, se2) for n in range(2, rmax + 1) for nd in (1, 2, 3) for se2 in (False, True)]
    return [
        Part("topology_exhaustive", run, cases=cases, exhaustive=(tier == "thorough"),
             note="rings 2..%d x ducts 1..3 x se2geo" % rmax),
        Part("geometry_generated", run, strategy=generated((2, 9) if tier == "quick" else (2, 16)),
             examples=160 if tier == "quick" else 3000),
    ]

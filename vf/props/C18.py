"""C18 - impossible or inconsistent inputs are rejected before any calculation."""
import copy
import os

import numpy as np
from hypothesis import strategies as st

from .. import build, drive, env, gen, units
from ..runner import Outcome, Part

ID = "C18"
TITLE = "Impossible or inconsistent inputs are rejected before any calculation"
TECHNIQUE = "property-based testing / fuzzing (Hypothesis): (a) valid generated inputs from all generators of this framework must be read, set up and swept without an unhandled exception, crashes bucketed by exception type and innermost dassh frame; (b) single-fault mutations of valid inputs, one per invalid class with drawn magnitude, must end in the documented error before the sweep; (c) line/token-level mutation fuzzing of the input text (outcome class only); (d) binary-flux (ARC/VARPOW) inputs on the two intact data sets, valid and with one of ten ARC fault classes"
RULE = ("valid_inputs: generated single assemblies and cores with every optional feature (bypass ducts, low-fidelity, axial regions, "
        "pin models, spacer grids, unit systems, temperature boundary conditions, conv_approx, bare rods, all correlation triples); "
        "single_faults: one fault of a drawn class and magnitude (barely to grossly invalid) injected into a valid input; "
        "text_fuzz: 1-4 line/token edits of a valid input text.  Non-trivial: valid part - the input was swept; fault part - "
        "the fault class was applicable to the drawn input; fuzz - the edited text differs from the original; distinct = spec hash")
ASSUMPTIONS = ["'rejected' = SystemExit after a logged error message (LoggedClass.log('error') or the power-file checks)",
               "'before any temperature is computed' = the error is raised while reading the input or constructing the Reactor"]
LEVEL_NOTE = "outcome classes only; every other exception type is a violation, bucketed by (type, innermost dassh frame)"


def outcome_of(spec, sweep=True, max_steps=None):
    """('swept'|'rejected:<stage>'|'crash', detail, signature)"""
    try:
        with drive.Case(spec) as c:
            c.resolve_length() if spec["core"].get("length") is None else None
            c.write()
            c.read()
            r = c.make_reactor(write_output=False)
            if sweep:
                drive.sweep(r, max_steps=max_steps)
            return "swept", "", None
    except drive.Rejected as e:
        return "rejected:" + e.stage, str(e)[:300], getattr(e, "via_exception", None)
    except drive.Crashed as e:
        return "crash", str(e)[:400], "%s@%s" % (e.exc_type, e.where)


def run_valid(spec):
    o = Outcome()
    u = spec.get("_units")
    sp = {k: v for k, v in spec.items() if k != "_units"}
    if u:
        try:
            with drive.Case(sp) as c0:
                c0.resolve_length()
                sp = units.convert(c0.spec, u["length"], u["temperature"], u["mass"], u["time"])
        except (drive.Rejected, drive.Crashed):
            pass
    kind, detail, sig = outcome_of(sp)
    o.classes["outcome"] = kind
    o.classes["generator"] = spec.get("_gen", "?")
    if kind == "crash":
        o.fail("valid_input_crashes:" + sig, detail)
    elif kind.startswith("rejected"):
        o.classes["reject_msg"] = detail.split(":", 1)[-1].strip()[:50]
        # a rejection by a documented check is fine (e.g. every grid position outside the bundle); an exception
        # escaping the reader that merely logged its message first is not how the reader rejects inputs
        if kind == "rejected:read" and sig:
            o.fail("reader_exception_on_generated_input:" + sig, detail)
    o.checks += 1
    o.nontrivial = kind == "swept"
    return o


# ------------------------------------------------------------------------------------------------
# (the first class is what every shard starts with - Hypothesis begins with the simplest example - so it gets the most cases)
FAULTS = ["duct_not_smaller_than_pitch", "pins_do_not_fit", "wire_too_thick", "wire_too_thick_low_fidelity", "wire_without_pitch", "clad_too_thick", "nonpositive_dimension",
          "unequal_outer_ducts", "inverted_axial_region", "overlapping_axial_regions", "missing_boundary_condition",
          "two_boundary_conditions", "unknown_coolant", "unknown_duct_material", "unknown_correlation",
          "power_wrong_item_count", "power_axial_gap", "power_not_core_length", "power_negative", "power_not_a_number",
          "power_component_cell_count", "power_longer_than_core", "fuel_clad_gap_too_thick", "odd_duct_ftf",
          "bypass_fraction_zero_with_flow_gap"]


def inject(spec, fault, mag, pick):
    """Returns the mutated spec or None if the fault class does not apply to this input."""
    s = copy.deepcopy(spec)
    names = sorted(s["assemblies"])
    name = names[pick % len(names)]
    a = s["assemblies"][name]
    eps = mag      # relative size of the violation, 1e-6 .. 1
    if fault == "pins_do_not_fit":
        if a.get("use_low_fidelity_model"):
            return None
        n = a["num_rings"]
        clr = min(a["duct_ftf"]) - (np.sqrt(3) * (n - 1) * a["pin_pitch"] + a["pin_diameter"] + 2 * a["wire_diameter"])
        a["pin_pitch"] = a["pin_pitch"] + (clr + eps * a["pin_pitch"]) / (np.sqrt(3) * (n - 1))
    elif fault == "wire_too_thick":
        a["wire_diameter"] = (a["pin_pitch"] - a["pin_diameter"]) * (1 + eps)
        if a["wire_pitch"] == 0:
            a["wire_pitch"] = 20 * a["pin_diameter"]
    elif fault == "wire_too_thick_low_fidelity":
        # the same impossible wire in an assembly computed with the low-fidelity model (its equivalent bundle is still built
        # from these dimensions); the duct is loose enough for the pins to fit, so that only the wire check can object
        if a.get("use_low_fidelity_model") is not True:
            a["use_low_fidelity_model"] = True
            a["low_fidelity_model"] = "simple" if pick % 2 else "6node"
            a["convection_factor"] = "calculate"
        if a["wire_diameter"] > 0:
            # (pins moved together until the gap is smaller than the wire: the bundle shrinks, so it always fits)
            a["pin_pitch"] = a["pin_diameter"] + a["wire_diameter"] / (1 + max(eps, 1e-6))
        else:
            a["wire_diameter"] = (a["pin_pitch"] - a["pin_diameter"]) * (1 + eps)
            a["wire_pitch"] = 20 * a["pin_diameter"]
        n = a["num_rings"]
        if min(a["duct_ftf"]) < np.sqrt(3) * (n - 1) * a["pin_pitch"] + a["pin_diameter"] + 2 * a["wire_diameter"] + 1e-9:
            return None
    elif fault == "wire_without_pitch":
        if not a["wire_diameter"] > 0:
            return None
        a["wire_pitch"] = 0.0
    elif fault == "clad_too_thick":
        a["clad_thickness"] = 0.5 * a["pin_diameter"] * (1 + eps)
    elif fault == "nonpositive_dimension":
        key = ["pin_pitch", "pin_diameter", "clad_thickness", "num_rings", "duct_ftf", "length", "assembly_pitch"][pick % 7]
        val = 0.0 if eps < 1e-3 else -eps
        if key in ("length", "assembly_pitch"):
            s["core"][key] = val
            s["core"].pop("n_steps", None)
        elif key == "duct_ftf":
            a["duct_ftf"] = list(a["duct_ftf"])
            a["duct_ftf"][0] = val
        elif key == "num_rings":
            a[key] = 0 if eps < 1e-3 else -1
        else:
            a[key] = val
    elif fault == "duct_not_smaller_than_pitch":
        # (judged on the assembly with the most ducts: every duct, not only the innermost, has to be inside the pitch)
        a = max((s["assemblies"][n_] for n_ in names), key=lambda x: len(x["duct_ftf"]))
        s["core"]["assembly_pitch"] = max(a["duct_ftf"]) * (1 - (eps if eps > 1e-3 else 0.0))
    elif fault == "unequal_outer_ducts":
        if len(names) < 2:
            return None
        f = sorted(a["duct_ftf"])
        f[-1] = f[-1] * (1 - min(eps, 0.5) * 0.01) if eps > 1e-5 else f[-1] - 2e-9
        if f[-1] <= f[-2]:
            return None
        a["duct_ftf"] = f
    elif fault == "inverted_axial_region":
        L = s["core"]["length"]
        a["AxialRegion"] = {"lower": {"model": "simple", "vf_coolant": 0.5, "z_lo": 0.3 * L, "z_hi": 0.3 * L * (1 - eps) if eps < 1 else 0.0}}
    elif fault == "overlapping_axial_regions":
        L = s["core"]["length"]
        a["AxialRegion"] = {"lower": {"model": "simple", "vf_coolant": 0.5, "z_lo": 0.0, "z_hi": 0.5 * L},
                            "upper": {"model": "simple", "vf_coolant": 0.5, "z_lo": 0.5 * L * (1 - eps * 0.5), "z_hi": L}}
    elif fault == "missing_boundary_condition":
        s["assignment"][pick % len(s["assignment"])][4] = {}
    elif fault == "two_boundary_conditions":
        s["assignment"][pick % len(s["assignment"])][4] = {"FLOWRATE": 1.0, "OUTLET_TEMP": s["core"]["coolant_inlet_temp"] + 50}
    elif fault == "unknown_coolant":
        s["core"]["coolant_material"] = "unobtainium"
    elif fault == "unknown_duct_material":
        a["duct_material"] = "unobtainium"
    elif fault == "unknown_correlation":
        a[["corr_friction", "corr_flowsplit", "corr_mixing", "corr_nusselt"][pick % 4]] = "XYZ"
    elif fault.startswith("power_"):
        pf = s["power"]["files"][0]
        key = sorted(pf, key=int)[pick % len(pf)]
        ap = pf[key]
        for row in s["assignment"]:
            idx_ = 0 if row[1] == 1 else 3 * (row[1] - 1) * (row[1] - 2) + row[2]
            if str(idx_ + 1) == key:
                a = s["assemblies"][row[0]]
        comps = [c for c in ("pins", "duct", "cool") if c in ap]
        comp = ap[comps[pick % len(comps)]]
        if "explicit" not in comp:
            comp = build.explicit_component(comp, len(ap["zb"]) - 1)
            ap[comps[pick % len(comps)]] = comp
        if fault == "power_wrong_item_count":
            if a.get("use_low_fidelity_model"):
                return None
            comp["n"] += 1 + int(eps * 3)
            for cell in comp["explicit"]:
                for _ in range(comp["n"] - len(cell)):
                    cell.append(list(cell[0]))
        elif fault == "power_axial_gap":
            if len(ap["zb"]) < 3:
                return None
            s["_power_gap"] = (key, eps)
        elif fault == "power_component_cell_count":
            # one component of the assembly on a different NUMBER of axial cells than the others
            if len(comps) < 2:
                return None
            mode = "merge" if (len(ap["zb"]) >= 3 and eps < 0.05) else "split"
            s["_power_cells"] = (key, {"pins": 1, "duct": 2, "cool": 3}[comps[pick % len(comps)]], mode)
        elif fault in ("power_not_core_length", "power_longer_than_core"):
            # (the reader compares to 1e-6 m: smaller mismatches are within its stated tolerance)
            ap["zb"] = list(ap["zb"])
            if fault == "power_longer_than_core":
                # the profile reaches beyond the core length given in the input
                ap["zb"][-1] = ap["zb"][-1] + max(eps * 0.5 * ap["zb"][-1], 5e-6)
                s["_power_len"] = "longer"
            else:
                ap["zb"][-1] = ap["zb"][-1] - max(eps * 0.5 * ap["zb"][-1], 5e-6)
                s["_power_len"] = "shorter"
            if ap["zb"][-1] <= ap["zb"][-2]:
                return None
        elif fault == "power_negative":
            for cell in comp["explicit"]:
                cell[pick % len(cell)][0] = -abs(cell[pick % len(cell)][0]) * eps - 1e-3
        elif fault == "power_not_a_number":
            cell = comp["explicit"][pick % len(comp["explicit"])]
            cell[pick % len(cell)][pick % len(cell[0])] = float("nan") if eps < 0.05 else float("inf")
    elif fault == "fuel_clad_gap_too_thick":
        if a.get("use_low_fidelity_model"):
            return None
        r_in = 0.5 * a["pin_diameter"] - a["clad_thickness"]
        a.pop("PinModel", None)
        a["FuelModel"] = {"clad_material": "ht9", "r_frac": [0.0], "pu_frac": [0.2], "zr_frac": [0.1], "porosity": [0.1],
                          "gap_material": "sodium",
                          # (the current key and the legacy key for the same quantity)
                          ["gap_thickness", "fcgap_thickness"][pick % 2]: r_in * (1.0 + max(eps, 1e-6))}
    elif fault == "odd_duct_ftf":
        a["duct_ftf"] = list(a["duct_ftf"])[:-1] if len(a["duct_ftf"]) > 2 else list(a["duct_ftf"]) + [max(a["duct_ftf"]) * 0.999]
    elif fault == "bypass_fraction_zero_with_flow_gap":
        s["core"]["gap_model"] = "flow"
        s["core"]["bypass_fraction"] = 0.0
    else:
        return None
    return s


def write_with_power_cells(spec, directory):
    """power_component_cell_count: split the last cell of one component in two, or merge its first two cells."""
    path = build.write(spec, directory)
    key, code, mode = spec["_power_cells"]
    p = os.path.join(directory, "power_0.csv")
    rows = [line.split(",") for line in open(p).read().splitlines()]
    mine = [r for r in rows if r[0] == key and int(r[1]) == code]
    zlo = sorted(set(float(r[2]) for r in mine))
    out = []
    for r in rows:
        if not (r[0] == key and int(r[1]) == code):
            out.append(r)
            continue
        lo, hi = float(r[2]), float(r[3])
        if mode == "split" and lo == zlo[-1]:
            zm = 0.5 * (lo + hi)
            out.append(r[:3] + [repr(zm)] + r[4:])
            out.append(r[:2] + [repr(zm)] + r[3:])
        elif mode == "merge" and lo == zlo[0]:
            hi2 = [float(x[3]) for x in mine if float(x[2]) == zlo[1]][0]
            out.append(r[:3] + [repr(hi2)] + r[4:])
        elif mode == "merge" and lo == zlo[1]:
            continue
        else:
            out.append(r)
    open(p, "w").write("\n".join(",".join(r) for r in out) + "\n")
    return path


def write_with_power_gap(spec, directory):
    """power_axial_gap needs a CSV whose cells do not touch: shift one upper bound in the written file."""
    path = build.write(spec, directory)
    key, eps = spec["_power_gap"]
    p = os.path.join(directory, "power_0.csv")
    rows = [line.split(",") for line in open(p).read().splitlines()]
    ap = spec["power"]["files"][0][key]
    z1 = ap["zb"][1]
    for row in rows:
        if row[0] == key and abs(float(row[3]) - z1) < 1e-12:
            row[3] = repr(z1 * (1 - max(eps, 1e-3) * 0.3))
    open(p, "w").write("\n".join(",".join(r) for r in rows) + "\n")
    return path


def run_fault(spec):
    o = Outcome()
    fault, mag, pick = spec["_fault"], spec["_mag"], spec["_pick"]
    base = {k: v for k, v in spec.items() if not k.startswith("_") or k == "_meta"}
    try:
        with drive.Case(base) as c0:
            c0.resolve_length()
            base = copy.deepcopy(c0.spec)
    except (drive.Rejected, drive.Crashed):
        o.inconclusive = "base_not_valid"
        return o
    kind, detail, sig = outcome_of(base, sweep=False)
    if kind != "swept":
        o.inconclusive = "base_not_valid"
        return o
    bad = inject(base, fault, mag, pick)
    o.classes["fault"] = fault
    if bad is not None and bad.get("_power_len"):
        o.classes["power_length"] = bad["_power_len"]
    o.classes["magnitude"] = "barely" if mag < 1e-3 else ("small" if mag < 0.05 else "gross")
    if bad is None:
        o.inconclusive = "fault_not_applicable"
        return o
    try:
        with drive.Case(bad) as c:
            if "_power_gap" in bad:
                c.path = write_with_power_gap(bad, c.dir)
            elif "_power_cells" in bad:
                c.path = write_with_power_cells(bad, c.dir)
            else:
                c.write()
            c.read()
            r = c.make_reactor()
            # accepted: it must not be possible to compute temperatures with it either
            try:
                drive.sweep(r, max_steps=3)
                o.fail("invalid_input_accepted:" + fault, "fault %s (relative size %.3g) was read, set up and swept" % (fault, mag))
            except drive.Rejected as e:
                o.fail("invalid_input_rejected_only_during_sweep:" + fault, str(e)[:200])
            except drive.Crashed as e:
                o.fail("invalid_input_crashes:%s:%s@%s" % (fault, e.exc_type, e.where), str(e)[:300])
    except drive.Rejected as e:
        o.classes["rejected_at"] = e.stage
    except drive.Crashed as e:
        o.fail("invalid_input_crashes:%s:%s@%s" % (fault, e.exc_type, e.where), str(e)[:300])
    o.checks += 1
    o.nontrivial = True
    return o


def run_fuzz(spec):
    o = Outcome()
    base = {k: v for k, v in spec.items() if not k.startswith("_") or k == "_meta"}
    with drive.Case(base) as c:
        try:
            c.resolve_length()
        except (drive.Rejected, drive.Crashed):
            o.inconclusive = "base_not_valid"
            return o
        c.write()
        lines = open(c.path).read().splitlines()
        orig = list(lines)
        touched = []
        for op, i, j, tok in spec["_edits"]:
            if not lines:
                break
            i %= len(lines)
            j %= len(lines)
            if op == "delete":
                del lines[i]
            elif op == "duplicate":
                lines.insert(j, lines[i])
            elif op == "swap":
                lines[i], lines[j] = lines[j], lines[i]
            elif op == "value" and "=" in lines[i]:
                k_, v_ = lines[i].split("=", 1)
                lines[i] = k_ + "= " + tok
            elif op == "key" and "=" in lines[i]:
                k_, v_ = lines[i].split("=", 1)
                lines[i] = k_[:len(k_) - len(k_.lstrip())] + tok + " =" + v_
            elif op == "bracket":
                lines[i] = lines[i].replace("[", "", 1) if "[" in lines[i] else "[" + lines[i]
            elif op == "truncate":
                lines[i] = lines[i][:max(1, len(lines[i]) // 2)]
            touched.append("%s:%s" % (op, lines[min(i, len(lines) - 1)].strip() if lines else ""))
        with open(c.path, "w") as f:
            f.write("\n".join(lines) + "\n")
        o.classes["changed"] = lines != orig
        import dassh
        try:
            inp = drive.guarded("read", dassh.DASSH_Input, c.path)
            o.classes["outcome"] = "accepted"
            try:
                r = drive.guarded("setup", dassh.Reactor, inp)
                o.classes["outcome"] = "set_up"
            except drive.Rejected:
                o.classes["outcome"] = "rejected:setup"
            except drive.Crashed as e:
                if os.environ.get("C18_DEBUG"):
                    import json
                    json.dump({"lines": lines, "orig": orig, "spec": spec, "base": base}, open("/tmp/c18_debug_%d.json" % os.getpid(), "w"), default=str)
                o.fail("accepted_input_crashes_setup:%s@%s" % (e.exc_type, e.where), str(e)[:300] + " | edits: %s" % touched)
        except drive.Rejected:
            o.classes["outcome"] = "rejected:read"
        except drive.Crashed as e:
            # malformed text is outside the classes the property lists: recorded, not asserted
            o.classes["outcome"] = "reader_exception:" + e.exc_type
        o.checks += 1
        o.nontrivial = lines != orig
    return o


# ------------------------------------------------------------------------------------------------
@st.composite
def valid_specs(draw, q):
    which = draw(st.sampled_from(["single", "single_all", "core", "core_models", "grids"]))
    if which == "single":
        spec = draw(gen.single_assembly(rings=(2, 5), ducts=(1, 3), n_steps=(10, 40), conv_approx=True, tol=True,
                                        regions=True, lowfi=True, regimes=("low", "lam", "tra", "tur"), bare=True))
    elif which == "single_all":
        spec = draw(gen.single_assembly(rings=(2, 4), ducts=(1, 3), n_steps=(10, 30), safe_corr=False, regions=True,
                                        lowfi=True, bare=True, coolant=["sodium", "lead", "nak", "lbe", "potassium", "sodium_se2anl"],
                                        duct_const=False, regimes=("low", "lam", "tra", "tur")))
    elif which in ("core", "core_models"):
        spec = draw(gen.core_spec(core_rings=(1, 2), n_types=(1, 3), rings=(2, 4), ducts=(1, 3),
                                  gap_models=("flow", "no_flow", "duct_average", "none"), regimes=("low", "lam", "tra", "tur"),
                                  n_steps=(10, 30), lowfi=True, regions=True, conv_approx=True,
                                  bc_kinds=("FLOWRATE", "OUTLET_TEMP", "DELTA_TEMP"), max_cells=3))
        if which == "core_models":
            from .C16 import with_models
            spec = with_models(draw, spec)
    else:
        spec = draw(gen.single_assembly(rings=(2, 4), ducts=(1, 2), n_steps=(10, 30), safe_corr=False, regions=True,
                                        regimes=("lam", "tra", "tur")))
        a = spec["assemblies"]["A"]
        sg = {"axial_positions_frac": sorted(round(draw(gen.fl(0.0, 1.0)), 3) for _ in range(draw(st.integers(1, 4))))}
        k = draw(st.integers(0, 2))
        if k == 0:
            sg["loss_coeff"] = gen.r6(draw(gen.fl(0.1, 3.0)))
        else:
            sg["corr"] = ["REH", "CDD"][k - 1]
            # (the default solidity relation 0.6957 - 162.8 g is documented to need a result in 0..1)
            if draw(st.booleans()) or a["pin_pitch"] - a["pin_diameter"] > 0.004:
                sg["solidity"] = gen.r6(draw(gen.fl(0.05, 0.9)))
        a["SpacerGrid"] = sg
    spec["_gen"] = which
    if draw(st.integers(0, 3)) == 0:
        spec["_units"] = {"length": draw(st.sampled_from(list(units.LENGTH))), "temperature": draw(st.sampled_from(units.TEMP)),
                          "mass": draw(st.sampled_from(list(units.MASS))), "time": draw(st.sampled_from(list(units.TIME)))}
    return spec


@st.composite
def fault_specs(draw, q):
    spec = draw(gen.core_spec(core_rings=(1, 2), n_types=(1, 2), rings=(2, 3), ducts=(1, 2), gap_models=("flow", "none", "no_flow"),
                              regimes=("lam", "tra", "tur"), n_steps=(8, 15), lowfi=True, regions=False, max_cells=3,
                              byp_frac=(0.03, 0.3)))
    spec["_fault"] = draw(st.sampled_from(FAULTS))
    spec["_mag"] = draw(st.sampled_from([1e-6, 1e-4]) | gen.logfl(1e-6, 1.0))
    spec["_pick"] = draw(st.integers(0, 20))
    return spec


@st.composite
def fuzz_specs(draw, q):
    spec = draw(gen.core_spec(core_rings=(1, 2), n_types=(1, 2), rings=(2, 3), ducts=(1, 2), gap_models=("flow", "none", "no_flow"),
                              regimes=("lam", "tra", "tur"), n_steps=(8, 12), lowfi=True, regions=True, max_cells=2,
                              byp_frac=(0.03, 0.3)))
    toks = ["", "0", "-1", "1e400", "nan", "abc", "1, 2, 3", "True", "None", "0.0, 0.0", "1e-30", ",", "[x]", "ss316", "flow",
            "num_rings", "duct_ftf", "length", "gap_model", "coolant_material", "pin_pitch", "FLOWRATE"]
    spec["_edits"] = [(draw(st.sampled_from(["delete", "duplicate", "swap", "value", "value", "key", "bracket", "truncate"])),
                       draw(st.integers(0, 200)), draw(st.integers(0, 200)), draw(st.sampled_from(toks)))
                      for _ in range(draw(st.integers(1, 4)))]
    return spec


# ---------------------------------------------------------------------------------------------------------------------
# binary-flux (ARC / VARPOW) inputs: the two intact single-assembly data sets
ARC_FAULTS = ["none", "none", "metal_without_alloy", "unknown_heating_coolant", "missing_binary_file", "file_count_mismatch",
              "binary_path_not_given", "core_length_mismatch", "assembly_pitch_mismatch", "more_positions_than_geodst",
              "fuel_material_missing", "unknown_fuel_alloy"]


def arc_fault_text(spec):
    from . import C03
    sp = copy.deepcopy(spec["arc"])
    f = spec["fault"]
    dd = os.path.join(env.REPO, "tests", "test_data", "single_asm_" + sp["dataset"])
    if f == "metal_without_alloy":
        sp["fuel_material"], sp["fuel_alloy"] = "metal", None
    elif f == "unknown_heating_coolant":
        sp["coolant"], sp["coolant_heating"] = "sodium_se2anl", None
    t = C03.arc_text(sp, dd)
    name = spec["file"].upper()
    line = "        %s = %s" % (spec["file"], os.path.join(dd, name))
    assert line in t
    if f == "missing_binary_file":
        t = t.replace(line, line + "_absent")
    elif f == "file_count_mismatch":
        t = t.replace(line, line + ", " + os.path.join(dd, name))
    elif f == "binary_path_not_given":
        t = t.replace(line + "\n", "")
    elif f == "core_length_mismatch":
        um = {"m": 1.0, "cm": 100.0, "in": 1.0 / 0.0254}[sp["len_unit"]]
        old = "    length = %.10g" % (C03.ARC_LEN * um)
        assert old in t
        t = t.replace(old, "    length = %.10g" % (C03.ARC_LEN * um * spec["mag"]))
    elif f == "assembly_pitch_mismatch":
        u = {"m": 0.0254, "cm": 2.54, "in": 1.0}[sp["len_unit"]]
        old = "    assembly_pitch = %.10g" % (C03.ARC_INCH["pitch"] * u)
        assert old in t
        t = t.replace(old, "    assembly_pitch = %.10g" % (C03.ARC_INCH["pitch"] * u * (1.0 + 0.03 * spec["mag"])))
    elif f == "more_positions_than_geodst":
        t = t.rstrip("\n") + "\n        fuel = 2, 1, %d, flowrate=10.0\n" % spec["pick"]
    elif f == "fuel_material_missing":
        t = "\n".join(l for l in t.splitlines() if "fuel_material" not in l) + "\n"
    elif f == "unknown_fuel_alloy":
        if "fuel_alloy" in t:
            t = "\n".join(("        fuel_alloy = unobtainium" if "fuel_alloy" in l else l) for l in t.splitlines()) + "\n"
        else:
            t = t.replace("    [[ARC]]\n", "    [[ARC]]\n        fuel_alloy = unobtainium\n")
    return t


def run_arc(spec):
    import shutil
    import tempfile
    import dassh
    o = Outcome()
    f = spec["fault"]
    o.classes["arc_fault"] = f
    text = arc_fault_text(spec)
    d = tempfile.mkdtemp(prefix="vf_c18arc_")
    cwd = os.getcwd()
    os.chdir(d)
    try:
        with open("input.txt", "w") as fh:
            fh.write(text)
        try:
            inp = drive.guarded("read", dassh.DASSH_Input, "input.txt")
            r = drive.guarded("setup", dassh.Reactor, inp, write_output=False)
            drive.guarded("sweep", drive.sweep, r, max_steps=spec.get("max_steps"))
            kind, detail, sig = "swept", "", None
        except drive.Rejected as e:
            kind, detail, sig = "rejected:" + e.stage, str(e)[:300], None
        except drive.Crashed as e:
            kind, detail, sig = "crash", str(e)[:400], "%s@%s" % (e.exc_type, e.where)
    finally:
        os.chdir(cwd)
        shutil.rmtree(d, ignore_errors=True)
    o.classes["arc_outcome"] = kind
    if f == "none":
        o.check(kind != "crash", "valid_arc_input_crashes:%s" % sig, detail)
        # a material out of its correlation range during the sweep is a documented stop; a rejection before it is not expected
        o.check(not kind.startswith("rejected:read") and not kind.startswith("rejected:setup"), "valid_arc_input_rejected", detail)
        o.nontrivial = kind == "swept"
    else:
        o.check(kind != "crash", "invalid_input_crashes:%s:%s" % (f, sig), detail)
        o.check(kind != "swept" and not kind.startswith("rejected:sweep"), "invalid_input_accepted:" + f,
                "%s: outcome %s %s" % (f, kind, detail))
        o.nontrivial = True
    return o


@st.composite
def arc_specs(draw):
    from . import C03
    sp = {"arc": draw(C03.arc_cases()), "fault": draw(st.sampled_from(ARC_FAULTS)),
          "file": draw(st.sampled_from(list(C03.ARC_FILES))),
          "mag": gen.r6(draw(st.one_of(gen.fl(0.5, 0.97), gen.fl(1.03, 2.0)))), "pick": draw(st.integers(1, 6)), "max_steps": 25}
    sp["arc"]["axial_mesh_size"] = None
    return sp


def parts(tier):
    q = tier == "quick"
    return [
        Part("valid_inputs", run_valid, strategy=valid_specs(q), examples=160 if q else 6000, timeout=120),
        Part("single_faults", run_fault, strategy=fault_specs(q), examples=240 if q else 6000, timeout=120),
        Part("text_fuzz", run_fuzz, strategy=fuzz_specs(q), examples=200 if q else 10000, timeout=60),
        Part("binary_flux_inputs", run_arc, strategy=arc_specs(), examples=64 if q else 1500, timeout=120),
    ]

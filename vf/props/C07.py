"""C07 - solutions are equivariant under hexagonal symmetries."""
import copy
import math

import numpy as np
from hypothesis import strategies as st

from .. import build, drive, gen, hexgeo
from ..runner import Outcome, Part

ID = "C07"
TITLE = "Solutions are equivariant under hexagonal symmetries"
TECHNIQUE = "property-based testing (Hypothesis): metamorphic pairs - the same problem with the power map (and, for cores, the whole loading pattern) rotated by k*60 degrees or mirrored with the wire direction reversed; permutations derived from published centroid coordinates only"
RULE = ("assembly_symmetry: generated single assemblies (2-6 rings, 1-3 ducts, both wire directions, all gap models) with "
        "asymmetric per-item pin / coolant / duct power; all five non-trivial rotations and the mirror are drawn; "
        "core_rotation: generated 7/19-position cores (empty positions, 1-3 types incl. no-pin types, all gap models), "
        "loading pattern and every assembly's power map rotated together.  Non-trivial: the power map has a trivial "
        "stabiliser under the drawn symmetry (checked on the item powers) and the transformation is not the identity; "
        "distinct = spec hash")
ASSUMPTIONS = ["constant-property coolant and duct (bitwise-independent ordering effects of T-dependent shared materials are C06's subject)",
               "permutations come from nearest-neighbour matching of rotated/mirrored centroid coordinates "
               "(PinLattice.xy, Subchannel.xy, own lattice coordinates for positions and gap cells)"]
LEVEL_NOTE = "temperatures compared to 1e-9 K"

TOL = 1e-9


def explicit_power(spec):
    """Replace the compact power description by explicit per-item tables (so that items can be permuted)."""
    for pf in spec["power"]["files"]:
        for ap in pf.values():
            ncell = len(ap.get("zb", ap.get("zb_frac"))) - 1
            for key in ("pins", "duct", "cool"):
                if key in ap and "explicit" not in ap[key]:
                    ap[key] = build.explicit_component(ap[key], ncell)
    return spec


def region_perms(reg, transform, tol):
    """Permutations of pins / coolant cells / each duct and bypass ring of a rodded region under a point transform."""
    sc = reg.subchannel
    nc = sc.n_sc["coolant"]["total"]
    nd = sc.n_sc["duct"]["total"]
    out = {"pins": hexgeo.match(transform(reg.pin_lattice.xy), reg.pin_lattice.xy, tol),
           "cool": hexgeo.match(transform(sc.xy[:nc]), sc.xy[:nc], tol), "rings": []}
    for r in range(2 * reg.n_duct - 1):
        seg = sc.xy[nc + r * nd: nc + (r + 1) * nd]
        out["rings"].append(hexgeo.match(transform(seg), seg, tol))
    return out


def hex6_perm(transform):
    """Permutation of six cells sitting on the hexagon corners (low-fidelity regions), clockwise from 30 degrees."""
    ang = [math.pi / 6.0 - k * math.pi / 3.0 for k in range(6)]
    xy = np.array([[math.cos(a), math.sin(a)] for a in ang])
    return hexgeo.match(transform(xy), xy, 1e-9)


def permute_power(ap, perms, n_duct):
    """items_B[perm[i]] = items_A[i] for every component."""
    out = copy.deepcopy(ap)
    for key in ("pins", "cool", "duct"):
        if key not in ap:
            continue
        tab = ap[key]["explicit"]
        new = []
        for cell in tab:
            if key == "duct":
                nd = len(cell) // n_duct
                row = [None] * len(cell)
                for d in range(n_duct):
                    p = perms["rings"][2 * d]
                    for i in range(nd):
                        row[d * nd + int(p[i])] = cell[d * nd + i]
            else:
                p = perms[key]
                row = [None] * len(cell)
                for i in range(len(cell)):
                    row[int(p[i])] = cell[i]
            new.append(row)
        out[key]["explicit"] = new
    return out


def fields(asm):
    """Temperature fields of an assembly at the current plane."""
    reg = asm.active_region
    f = {"cool": reg.temp["coolant_int"].copy(), "duct": reg.temp["duct_mw"].copy(),
         "surf": reg.temp["duct_surf"].copy()}
    if "coolant_byp" in reg.temp:
        f["byp"] = reg.temp["coolant_byp"].copy()
    if hasattr(reg, "pin_temps"):
        f["pins"] = reg.pin_temps[:, 3:].copy()
    return f


def compare_assembly(o, fa, fb, perms, lowfi6, tag):
    """fb[perm[i]] == fa[i]"""
    worst = 0.0

    def cmp(a, b, p, name):
        nonlocal worst
        d = float(np.max(np.abs(b[..., p] - a)))
        worst = max(worst, d)
        o.check(d <= TOL, "not_equivariant_" + name, "%s: max deviation %.3e K" % (tag, d))
    if perms is None:
        if fa["cool"].size == 6:
            cmp(fa["cool"], fb["cool"], lowfi6, "lowfi_coolant")
        else:
            cmp(fa["cool"], fb["cool"], np.arange(fa["cool"].size), "lowfi_coolant")
        cmp(fa["duct"][0], fb["duct"][0], lowfi6, "lowfi_duct")
        return worst
    cmp(fa["cool"], fb["cool"], perms["cool"], "coolant")
    for d in range(fa["duct"].shape[0]):
        cmp(fa["duct"][d], fb["duct"][d], perms["rings"][2 * d], "duct")
        cmp(fa["surf"][d], fb["surf"][d], perms["rings"][2 * d], "duct_surface")
    if "byp" in fa:
        for b in range(fa["byp"].shape[0]):
            cmp(fa["byp"][b], fb["byp"][b], perms["rings"][2 * b + 1], "bypass")
    if "pins" in fa:
        d = float(np.max(np.abs(fb["pins"][perms["pins"]] - fa["pins"])))
        worst = max(worst, d)
        o.check(d <= TOL, "not_equivariant_pins", "%s: %.3e K" % (tag, d))
    return worst


def stabiliser_trivial(ap, perms, n_duct):
    """True if the permuted power differs from the original (the map is not symmetric under the transform)."""
    pb = permute_power(ap, perms, n_duct)
    for key in ("pins", "cool", "duct"):
        if key in ap:
            a = np.array(ap[key]["explicit"])
            b = np.array(pb[key]["explicit"])
            if np.max(np.abs(a - b)) > 1e-9 * max(np.max(np.abs(a)), 1e-300):
                return True
    return False


def run_assembly(spec):
    o = Outcome()
    kind = spec["_sym"]
    specA = explicit_power(copy.deepcopy(spec))
    if kind == "mirror":
        transform = hexgeo.mirror_x
    else:
        ang = -kind * math.pi / 3.0
        transform = lambda xy: hexgeo.rot(xy, ang)          # noqa: E731
    with drive.Case(specA) as cA:
        rA = cA.setup()
        specA = cA.spec
        asmA = rA.assemblies[0]
        reg = asmA.rodded
        if reg is None:
            o.inconclusive = "no_rodded_region"
            return o
        tol = 1e-7 * reg.pin_pitch
        perms = region_perms(reg, transform, tol)
        n_duct = reg.n_duct
        lowfi6 = hex6_perm(transform)
        drive.sweep(rA)
        fA = fields(asmA)
        zA = np.array(rA.z)
        regsA = [type(g).__name__ for g in asmA.region]
    specB = copy.deepcopy(specA)
    ap = specA["power"]["files"][0]["1"]
    specB["power"]["files"][0]["1"] = permute_power(ap, perms, n_duct)
    if kind == "mirror":
        a = specB["assemblies"]["A"]
        a["wire_direction"] = "clockwise" if a["wire_direction"] == "counterclockwise" else "counterclockwise"
    with drive.Case(specB) as cB:
        rB = cB.setup()
        o.check(np.array_equal(zA, np.array(rB.z)), "axial_mesh_differs_between_pair")
        drive.sweep(rB)
        fB = fields(rB.assemblies[0])
    last_rodded = rA.assemblies[0].active_region.is_rodded
    w = compare_assembly(o, fA, fB, perms if last_rodded else None, lowfi6, "assembly")
    o.metric("max_deviation_K", w)
    m = spec["_meta"]["A"]
    o.classes.update({"sym": str(kind), "n_ring": m["n_ring"], "n_duct": m["n_duct"], "gap": spec["core"]["gap_model"],
                      "wire": spec["assemblies"]["A"]["wire_direction"], "last_region_rodded": bool(last_rodded),
                      "bare": m["Dw"] == 0.0})
    o.nontrivial = stabiliser_trivial(ap, perms, n_duct) and last_rodded
    return o


def run_core(spec):
    o = Outcome()
    k = spec["_sym"]
    ang = -k * math.pi / 3.0
    transform = lambda xy: hexgeo.rot(xy, ang)              # noqa: E731
    specA = explicit_power(copy.deepcopy(spec))
    cr = spec["_meta"]["core_rings"]
    pitch = spec["core"]["assembly_pitch"]
    pperm = hexgeo.position_perm(cr, transform)
    lowfi6 = hex6_perm(transform)
    with drive.Case(specA) as cA:
        rA = cA.setup()
        specA = cA.spec
        filledA = [p["idx"] for p in spec["_meta"]["pos"]]
        perms = {}
        for a in rA.assemblies:
            if a.has_rodded:
                perms[a.name] = region_perms(a.rodded, transform, 1e-7 * a.rodded.pin_pitch)
        nducts = {a.name: (a.rodded.n_duct if a.has_rodded else 1) for a in rA.assemblies}
        locA = hexgeo.gap_cell_locations(rA.core, filledA, pitch)
        drive.sweep(rA)
        fA = {filledA[i]: (a.name, fields(a), a.active_region.is_rodded) for i, a in enumerate(rA.assemblies)}
        gapA = rA.core.coolant_gap_temp.copy()
        zA = np.array(rA.z)
    # rotated problem
    specB = copy.deepcopy(specA)
    rows = []
    pf = {}
    for row in specA["assignment"]:
        name, ring, p1, p2, kw = row
        idx = 0 if ring == 1 else 3 * (ring - 1) * (ring - 2) + p1
        new = int(pperm[idx])
        r2, q2 = gen.pos_to_ring(new)
        rows.append((new, [name, r2, q2, q2, kw]))
        ap = specA["power"]["files"][0][str(idx + 1)]
        pf[str(new + 1)] = permute_power(ap, perms[name], nducts[name]) if name in perms else copy.deepcopy(ap)
    specB["assignment"] = [r for _, r in sorted(rows, key=lambda t: t[0])]
    specB["power"]["files"][0] = pf
    with drive.Case(specB) as cB:
        rB = cB.setup()
        filledB = sorted(int(pperm[i]) for i in filledA)
        o.check(np.array_equal(zA, np.array(rB.z)), "axial_mesh_differs_between_pair",
                "%d vs %d planes" % (len(zA), len(rB.z)))
        locB = hexgeo.gap_cell_locations(rB.core, filledB, pitch)
        drive.sweep(rB)
        fB = {filledB[i]: (a.name, fields(a), a.active_region.is_rodded) for i, a in enumerate(rB.assemblies)}
        gapB = rB.core.coolant_gap_temp.copy()
    worst = 0.0
    for idx, (name, fa, rod) in fA.items():
        nameB, fb, _ = fB[int(pperm[idx])]
        o.check(name == nameB, "harness_position_mapping")
        worst = max(worst, compare_assembly(o, fa, fb, perms.get(name) if rod else None, lowfi6,
                                            "position %d (%s)" % (idx, name)))
    # gap cells
    if rA.core.model is not None:
        idsA = sorted(locA)
        xyA = np.array([locA[i] for i in idsA])
        idsB = sorted(locB)
        xyB = np.array([locB[i] for i in idsB])
        o.check(len(idsA) == len(idsB), "gap_cell_count_differs", "%d vs %d" % (len(idsA), len(idsB)))
        if len(idsA) == len(idsB):
            try:
                gp = hexgeo.match(transform(xyA), xyB, 1e-6 * pitch)
                d = float(np.max(np.abs(gapB[np.array(idsB)[gp] - 1] - gapA[np.array(idsA) - 1])))
                worst = max(worst, d)
                o.check(d <= TOL, "not_equivariant_gap", "max deviation %.3e K" % d)
            except ValueError as e:
                o.fail("gap_mesh_not_rotated", str(e))
    o.metric("max_deviation_K", worst)
    o.classes.update({"sym": str(k), "core_rings": cr, "n_asm": len(filledA), "gap": spec["core"]["gap_model"],
                      "moved": any(int(pperm[i]) != i for i in filledA)})
    nontriv = any(stabiliser_trivial(specA["power"]["files"][0][str(i + 1)], perms[fA[i][0]], nducts[fA[i][0]])
                  for i in filledA if fA[i][0] in perms)
    o.nontrivial = nontriv and len(filledA) >= 2
    return o


@st.composite
def assembly_cases(draw, q):
    spec = draw(gen.single_assembly(rings=(2, 4) if q else (2, 6), ducts=(1, 3), n_steps=(20, 60),
                                    gap_model=draw(st.sampled_from(["none", "flow", "no_flow", "duct_average"])),
                                    regimes=("lam", "tra", "tur"), comps=("pins", "duct", "cool"), max_cells=2,
                                    regions=True, bare=True))
    spec["_sym"] = draw(st.sampled_from([1, 2, 3, 4, 5, "mirror", "mirror"]))
    return spec


@st.composite
def core_cases(draw, q):
    tdep = draw(st.booleans())
    spec = draw(gen.core_spec(core_rings=(2, 2) if q else (2, 3), n_types=(1, 3), rings=(2, 3) if q else (2, 4),
                              ducts=(1, 2), gap_models=("flow", "no_flow", "duct_average", "none"),
                              regimes=("lam", "tra", "tur"), n_steps=(15, 40), lowfi=True, regions=False,
                              comps=("pins", "duct", "cool"), max_cells=2, byp_frac=(0.02, 0.3),
                              coolant=["sodium", "nak", "lead", "sodium_se2anl"] if tdep else "const", duct_const=not tdep,
                              dT=(40.0, 200.0) if tdep else (5.0, 200.0)))
    # (temperature-dependent properties with a lazy correlation update: the assemblies refresh their correlated parameters
    # at different heights, so anything they share makes the result depend on the order they are advanced in - which the
    # rotation changes)
    if tdep and draw(st.booleans()):
        spec["setup"]["param_update_tol"] = gen.r6(draw(gen.logfl(1e-3, 0.1)))
    spec["_sym"] = draw(st.integers(1, 5))
    return spec


def parts(tier):
    q = tier == "quick"
    return [
        Part("assembly_symmetry", run_assembly, strategy=assembly_cases(q), examples=64 if q else 2000, timeout=120),
        Part("core_rotation", run_core, strategy=core_cases(q), examples=32 if q else 800, timeout=300),
    ]

"""C12 - flow split conserves mass and equalises subchannel pressure gradients."""
import math

import numpy as np
from hypothesis import strategies as st

from .. import drive, env, gen, geom
from ..runner import Outcome, Part

ID = "C12"
TITLE = "Flow split conserves mass and equalises subchannel pressure gradients"
TECHNIQUE = "exhaustive enumeration of the 120 correlation triples x regime classes x spacer-grid options plus property-based sampling of geometries; own implementation of the Cheng-Todreas subchannel friction laws as oracle for the pressure-gradient equalisation, regions built directly and through clone(), split constants compared with the friction module of the split's own family"
RULE = ("triples_regimes: every friction x flow-split x mixing combination the reader accepts (6 x 5 x 4 = 120) x Reynolds "
        "classes {laminar, at Re_bL, transition, at Re_bT, turbulent} x spacer grids {none, loss coefficient, REH, CDD} on a "
        "canonical 37-pin bundle - complete enumeration; ct_equalisation: hypothesis draws geometry (P/D 1.02-1.6, H/D 4-80, "
        "ring count 2-12, edge clearance, i.e. within and beyond the applicability ranges), Re 10-1e6 with mass at the regime "
        "boundaries, bundle z-bounds and grids for the CTD/UCTD family.  Non-trivial: the evaluation succeeded; for the "
        "second part additionally Re in the transition regime or grids present; distinct = spec hash")
ASSUMPTIONS = ["correlations are evaluated through the real path RoddedRegion._init_static_correlated_params / "
               "_update_coolant_int_params on a region built with the generated geometry and a flow that yields the drawn Re",
               "equalisation oracle: subchannel friction factor f_i = Cf_iL/Re_i (laminar), Cf_iT/Re_i^0.18 (turbulent), "
               "transition blend with intermittency (CTD: gamma 1/3; UCTD: extra factor 1 - psi^7), constants Cf_i taken from "
               "the flow-split correlation's own constants"]
LEVEL_NOTE = "mass conservation 1e-12; equalisation 1e-10 in laminar/turbulent flow, 2e-3 where the successive-approximation iteration (stop rule 1e-5) is used"

FR = ["NOV", "REH", "ENG", "CTD", "CTS", "UCTD"]
FS = ["NOV", "SE2", "MIT", "CTD", "UCTD"]
MX = ["MIT", "CTD", "UCTD", "KC-BARE"]
M_T = 0.18


def build(spec):
    env.setup()
    import dassh
    from dassh import region_rodded
    cool = dassh.Material("c12cool", coeff_dict={"thermal_conductivity": [70.0], "heat_capacity": [1270.0],
                                                 "density": [850.0], "viscosity": [2.5e-4]})
    duct = dassh.Material("c12duct", coeff_dict={"thermal_conductivity": [20.0], "heat_capacity": [500.0], "density": [7800.0]})
    g = spec["geom"]
    flow = geom.flow_for_reynolds(spec["Re"], 2.5e-4, g["n_ring"], g["P"], g["D"], g["Dw"], g["H"], g["ftf"][0])
    grid = None
    if spec.get("grid"):
        grid = {"corr": None, "corr_coeff": None, "loss_coeff": None, "axial_positions": list(spec["grid"]["z"]), "solidity": None}
        grid.update({k: v for k, v in spec["grid"].items() if k != "z"})
    # via_clone: the region every Reactor assembly really uses is a clone of the type template with its own flow rate
    rr = region_rodded.RoddedRegion("c12", g["n_ring"], g["P"], g["D"], g["H"], g["Dw"], 0.1 * g["D"], list(g["ftf"]),
                                    flow * 1.7 if spec.get("via_clone") else flow,
                                    cool, duct, None, spec["ff"], spec["fs"], spec["mix"], "DB", None, grid, None, None,
                                    "clockwise", 1.0, False, 0.0, False)
    if spec.get("via_clone"):
        rr = rr.clone(new_flowrate=flow)
    rr.z = list(spec.get("z", [0.0, 1.0]))
    rr._init_static_correlated_params(700.0)
    rr._update_coolant_int_params(700.0)
    return rr


def sub_ff(Re_i, CfL, CfT, Re_iL, Re_iT, lam):
    fL = CfL / Re_i
    fT = CfT / Re_i ** M_T
    psi = np.log10(Re_i / Re_iL) / np.log10(Re_iT / Re_iL)
    psi = np.clip(psi, 0.0, 1.0)
    f = fL * (1.0 - psi) ** (1.0 / 3.0)
    if lam:
        f = f * (1.0 - psi ** lam)
    return f + fT * psi ** (1.0 / 3.0), psi


def run(spec):
    o = Outcome()
    fam_fs = spec["fs"] in ("CTD", "UCTD")
    o.classes.update({"ff": spec["ff"], "fs": spec["fs"], "mix": spec["mix"], "regime": spec.get("regime", "?"),
                      "via_clone": bool(spec.get("via_clone")),
                      "grid": (spec.get("grid") or {}).get("corr") or ("loss_coeff" if spec.get("grid") else "none")})
    fallback = [0]
    try:
        from dassh.correlations import flowsplit_ctd as _fc
        if not hasattr(_fc, "_vf_orig_approx"):
            _fc._vf_orig_approx = _fc._calc_transition_flowsplit_APPROX
        def _counted(*a_, **k_):
            fallback[0] += 1
            return _fc._vf_orig_approx(*a_, **k_)
        _fc._calc_transition_flowsplit_APPROX = _counted
    except Exception:
        pass
    try:
        rr = drive.guarded("evaluate", build, spec)
    except drive.Crashed as e:
        o.fail("cannot_evaluate:%s@%s" % (e.exc_type, e.where), "%s (ff=%s fs=%s mix=%s regime=%s grid=%s)"
               % (e, spec["ff"], spec["fs"], spec["mix"], spec.get("regime"), o.classes["grid"]))
        return o
    except drive.Rejected as e:
        # bare-rod inapplicability is the only documented rejection at this stage
        if "bare rod" in str(e):
            o.inconclusive = "rejected:bare_rod"
            return o
        o.fail("rejected_accepted_combination", str(e)[:300])
        return o
    p = rr.coolant_int_params
    x = np.array(p["fs"], float)
    Re = float(p["Re"])
    o.check(abs(Re - spec["Re"]) <= 1e-9 * spec["Re"], "harness_reynolds", "%r vs %r" % (Re, spec["Re"]))
    n = rr.subchannel.n_sc["coolant"]
    s = np.array([n["interior"] * rr.params["area"][0], n["edge"] * rr.params["area"][1], n["corner"] * rr.params["area"][2]]) \
        / rr.bundle_params["area"]
    o.check(bool(np.all(np.isfinite(x))) and bool(np.all(x > 0)), "flow_split_not_positive", str(x))
    mass = abs(float(np.dot(s, x)) - 1.0)
    o.metric("mass_conservation_err", mass)
    o.check(mass <= 1e-12 if fam_fs else mass <= 1e-9, "flow_split_mass_conservation", "sum s_i x_i - 1 = %.3e (x=%s)" % (mass, x))
    o.check(abs(float(np.sum(rr.sc_mfr)) - rr.int_flow_rate) <= max(1e-12, mass * 2) * rr.int_flow_rate, "subchannel_flows_sum")
    ff = float(p["ff"])
    o.check(math.isfinite(ff) and ff > 0, "friction_factor_not_positive", repr(ff))
    o.check(math.isfinite(float(p["eddy"])) and float(p["eddy"]) >= 0, "eddy_diffusivity_negative", repr(p["eddy"]))
    sw = np.array(p["swirl"], float)
    o.check(bool(np.all(np.isfinite(sw))) and bool(np.all(sw >= 0)), "swirl_velocity_negative", str(sw))
    htc = np.array(p["htc"], float)
    o.check(bool(np.all(np.isfinite(htc))) and bool(np.all(htc > 0)), "htc_not_positive", str(htc))
    if "grid_loss_coeff" in p:
        K = float(p["grid_loss_coeff"])
        o.check(math.isfinite(K) and K >= 0, "grid_loss_coefficient", repr(K))
    # ---- Cheng-Todreas family: equal pressure gradients ---------------------------------------
    if fam_fs:
        c = rr.corr_constants["fs"]
        CfL, CfT = np.array(c["Cf_sc"]["laminar"]), np.array(c["Cf_sc"]["turbulent"])
        ReL, ReT = c["Re_bnds"]
        # the constants the split works with are those of the friction correlation of its OWN family, whatever friction
        # correlation the assembly uses (differential against the family's friction module)
        from dassh.correlations import friction_ctd, friction_uctd
        fmod = friction_uctd if spec["fs"] == "UCTD" else friction_ctd
        try:
            cref = drive.guarded("family_constants", fmod.calculate_subchannel_friction_factor_const, rr)
            bref = drive.guarded("family_constants", fmod.calculate_Re_bounds, rr)
            for reg_ in ("laminar", "turbulent"):
                dcf = float(np.max(np.abs(np.array(c["Cf_sc"][reg_], float) / np.array(cref[reg_], float) - 1.0)))
                o.check(dcf <= 1e-12, "split_constants_not_of_own_family", "%s Cf_sc differ by %.3e (ff=%s fs=%s, via_clone=%s)"
                        % (reg_, dcf, spec["ff"], spec["fs"], bool(spec.get("via_clone"))))
            dbn = float(np.max(np.abs(np.array(c["Re_bnds"], float) / np.array(bref, float) - 1.0)))
            o.check(dbn <= 1e-12, "split_regime_bounds_not_of_own_family", "%.3e" % dbn)
        except (drive.Crashed, drive.Rejected):
            pass
        De = np.array(rr.params["de"])
        Deb = rr.bundle_params["de"]
        Re_i = Re * x * De / Deb
        lam = 7 if spec["fs"] == "UCTD" else None
        Lb = rr.z[1] - rr.z[0]
        if spec.get("grid"):
            Re_iL = ReL * De / Deb * np.array(c["fs"]["laminar"])
            Re_iT = ReT * De / Deb * np.array(c["fs"]["turbulent"])
            f_i, psi = sub_ff(Re_i, CfL, CfT, Re_iL, Re_iT, lam)
            Kt = float(p["grid_loss_coeff"]) * len(spec["grid"]["z"])
            grad = (f_i * Lb / De + Kt) * x * x
            tol = 2e-3
            kind = "grid"
        elif Re <= ReL:
            grad = CfL / Re_i * x * x / De
            tol, kind = 1e-10, "laminar"
        elif Re >= ReT:
            grad = CfT / Re_i ** M_T * x * x / De
            tol, kind = 1e-10, "turbulent"
        else:
            Re_iL = ReL * De / Deb * np.array(c["fs"]["laminar"])
            Re_iT = ReT * De / Deb * np.array(c["fs"]["turbulent"])
            f_i, psi = sub_ff(Re_i, CfL, CfT, Re_iL, Re_iT, lam)
            grad = f_i * x * x / De
            tol, kind = 2e-3, "transition"
        spread = float(np.max(grad) / np.min(grad) - 1.0)
        o.metric("gradient_spread_" + kind, spread)
        ok = spread <= tol
        if not ok and kind in ("transition", "grid"):
            # slowly converging successive approximation: the split is accepted if it satisfies the routine's own
            # stop rule (|change of x_edge| < 1e-5) under one more step of *this* implementation of the iteration
            t = grad / (x * x)
            x1x2, x3x2 = math.sqrt(t[1] / t[0]), math.sqrt(t[1] / t[2])
            x2n = 1.0 / (s[1] + s[0] * x1x2 + s[2] * x3x2)
            o.metric("own_next_iterate_change", abs(x2n - x[1]))
            ok = abs(x2n - x[1]) < 3e-5 and not fallback[0]
            o.classes["slow_convergence"] = bool(ok)
        o.classes["fallback_approximation"] = bool(fallback[0]) and kind == "transition"
        # distance above the flow-split laminar bound (the successive approximation is known not to converge there)
        o.classes["near_ReL"] = bool(kind in ("transition",) and ReL < Re <= 1.012 * ReL)
        o.check(ok, "pressure_gradients_not_equal_" + kind,
                "max/min - 1 = %.3e at Re=%.6g (Re_bL=%.6g Re_bT=%.6g) x=%s fallback=%s"
                % (spread, Re, ReL, ReT, x, bool(fallback[0])))
        o.classes["ct_kind"] = kind
        same_family = (spec["ff"] == spec["fs"])
        if kind in ("laminar", "turbulent") and same_family:
            common = float(np.mean(grad))
            bundle = ff / Deb
            d = abs(common / bundle - 1.0)
            o.metric("bundle_gradient_dev", d)
            o.check(d <= 1e-9, "common_gradient_is_not_bundle_friction", "subchannel %.10e vs f_b/De_b %.10e" % (common, bundle))
    o.nontrivial = True
    if spec.get("_part") == "ct":
        o.nontrivial = o.classes.get("ct_kind") in ("transition", "grid")
    o.sample = {k: v for k, v in spec.items() if not k.startswith("_")}
    return o


def canonical_geom(n_ring=4, p2d=1.2, wf=0.8, cf=0.1, h2d=20.0):
    F = 0.12
    ftf = [round(F - 0.006, 9), F]
    b = geom.solve_bundle(ftf[0], n_ring, p2d, wf, cf)
    return {"n_ring": n_ring, "P": round(b["P"], 10), "D": round(b["D"], 10), "Dw": round(b["Dw"], 10),
            "H": round(h2d * b["D"], 9), "ftf": ftf, "p2d": p2d}


def regime_res(p2d):
    """Reynolds numbers for the five regime classes (both CTD and UCTD laminar bounds are bracketed)."""
    ReL = 300.0 * 10 ** (1.7 * (p2d - 1.0))
    ReL2 = 320.0 * 10 ** (p2d - 1.0)
    ReT = 1.0e4 * 10 ** (0.7 * (p2d - 1.0))
    return {"laminar": 0.3 * min(ReL, ReL2), "at_ReL": ReL * 1.003, "at_ReL_uctd": ReL2 * 1.003,
            "transition": math.sqrt(max(ReL, ReL2) * ReT), "at_ReT": ReT * 0.997, "turbulent": 4.0 * ReT}


def enumerated():
    g = canonical_geom()
    res = regime_res(g["p2d"])
    grids = [None, {"loss_coeff": 1.1, "z": [0.2, 0.5, 0.8]}, {"corr": "REH", "solidity": 0.3, "z": [0.2, 0.5, 0.8]},
             {"corr": "CDD", "solidity": 0.3, "z": [0.3, 0.7]}]
    out = []
    for ff in FR:
        for fs in FS:
            for mix in MX:
                for rname, Re in res.items():
                    for gr in grids:
                        out.append({"ff": ff, "fs": fs, "mix": mix, "Re": Re, "regime": rname, "geom": g, "grid": gr,
                                    "via_clone": len(out) % 2 == 1 or (ff != fs and fs in ("CTD", "UCTD") and ff in ("CTD", "UCTD"))})
    return out


@st.composite
def ct_cases(draw):
    n_ring = draw(st.integers(2, 12))
    p2d = draw(gen.fl(1.02, 1.6))
    wf = draw(st.sampled_from([0.0]) | gen.fl(0.2, 1.0))
    cf = draw(gen.fl(0.0, 0.5))
    h2d = draw(gen.fl(4.0, 80.0))
    g = canonical_geom(n_ring, p2d, wf, cf, h2d)
    if g["Dw"] == 0.0:
        g["H"] = 0.0
    fam = draw(st.sampled_from(["CTD", "UCTD"]))
    res = regime_res(p2d)
    kind = draw(st.integers(0, 5))
    if kind == 0:
        Re = draw(gen.logfl(10.0, 1e6))
    elif kind == 1:
        Re = res["at_ReL" if fam == "CTD" else "at_ReL_uctd"] / 1.003 * draw(gen.fl(0.97, 1.2))
    elif kind == 2:
        Re = res["at_ReT"] / 0.997 * draw(gen.fl(0.9, 1.03))
    else:
        lo = res["at_ReL" if fam == "CTD" else "at_ReL_uctd"]
        Re = draw(gen.logfl(lo, res["at_ReT"]))
    spec = {"ff": fam, "fs": fam, "mix": draw(st.sampled_from([fam, "MIT", "KC-BARE"])), "Re": Re, "geom": g, "_part": "ct",
            "regime": "drawn", "via_clone": draw(st.booleans())}
    if draw(st.integers(0, 3)) == 0:
        spec["ff"] = "UCTD" if fam == "CTD" else "CTD"      # friction of the other family member: the split keeps its own constants
    if g["Dw"] == 0.0:
        spec["mix"] = draw(st.sampled_from([fam, "KC-BARE"]))
    if draw(st.integers(0, 2)) == 0:
        z0 = round(draw(gen.fl(0.0, 1.5)), 3)
        z1 = round(z0 + draw(gen.fl(0.3, 2.0)), 3)
        nz = draw(st.integers(1, 6))
        spec["z"] = [z0, z1]
        gr = {"z": [round(z0 + (k + 0.5) * (z1 - z0) / nz, 6) for k in range(nz)]}
        if draw(st.booleans()):
            gr["loss_coeff"] = gen.r6(draw(gen.fl(0.2, 3.0)))
        else:
            gr["corr"] = draw(st.sampled_from(["REH", "CDD"]))
            gr["solidity"] = gen.r6(draw(gen.fl(0.1, 0.6)))
        spec["grid"] = gr
    return spec


def parts(tier):
    q = tier == "quick"
    return [
        Part("triples_regimes", run, cases=enumerated(), exhaustive=True,
             note="120 correlation triples x 6 Reynolds classes x 4 grid options"),
        Part("ct_equalisation", run, strategy=ct_cases(), examples=400 if q else 20000),
    ]

"""C03 - power deposited over the sweep equals the power assigned."""
import copy
import os

import numpy as np
from hypothesis import strategies as st

from .. import build, drive, gen, observe
from ..runner import Outcome, Part

ID = "C03"
TITLE = "Power deposited over the sweep equals the power assigned"
TECHNIQUE = "property-based testing (Hypothesis): generated user-power files integrated analytically by the harness (independent reference), compared with Assembly.total_power and the power deposited by the real sweep; metamorphic scaling / step-size pairs; the VARPOW binary-flux path on the two intact data sets with generated options, checked against the harness' integral of the coefficient arrays"
RULE = ("generated cores (1-7 assemblies, 1-3 types, optional unrodded regions so that bundle bounds fall inside power "
        "cells) with user power files of 1-4 axial cells, polynomial order 0-3, per-item shapes, zero cells and missing "
        "components; normalisation absent / given / zero, scaling factor, drawn axial_mesh_size.  Non-trivial: a "
        "non-constant profile and (non-aligned bundle bounds or >= 2 power cells); distinct = spec hash")
ASSUMPTIONS = ["reference integral: sum_k a_k ((1/2)^(k+1) - (-1/2)^(k+1))/(k+1) * cell width, computed by vf/build.py",
               "power profiles are non-negative on every cell by construction (the reader requires it; the sweep clips negatives)"]
LEVEL_NOTE = "totals compared to 1e-9 relative; temperatures in the scaling pair to 1e-9 of the rise"


def expected_powers(spec, t=0):
    pf = spec["power"]["files"][t]
    raw = {k: build.asm_power_integral(ap) for k, ap in pf.items()}
    tot_raw = sum(v["total"] for v in raw.values())
    P = spec["power"].get("total_power")
    s = spec["power"].get("scaling")
    s = 1.0 if s is None else s
    if P is None:
        ren = 1.0
    elif P == 0.0 or tot_raw == 0.0:
        ren = 0.0
    else:
        ren = P / tot_raw
    return {k: {c: v[c] * ren * s for c in v} for k, v in raw.items()}, tot_raw * ren * s


def aligned(spec):
    for name, a in spec["assemblies"].items():
        for r in (a.get("AxialRegion") or {}).values():
            for key in ("z_lo", "z_hi"):
                z = r[key]
                for ap in spec["power"]["files"][0].values():
                    if min(abs(z - b) for b in ap["zb"]) > 1e-9:
                        return False
    return True


def run_total(spec):
    o = Outcome()
    with drive.Case(spec) as c:
        r = c.setup()
        sp = c.spec
        exp, exp_tot = expected_powers(sp)
        asms = r.assemblies
        o.classes["n_asm"] = len(asms)
        o.classes["norm"] = ("none" if sp["power"].get("total_power") is None
                             else ("zero" if sp["power"]["total_power"] == 0 else "given"))
        o.classes["scaling"] = sp["power"].get("scaling") not in (None, 1.0)
        al = aligned(sp)
        o.classes["aligned"] = al
        o.classes["has_unrodded"] = any(len(a.region) > 1 for a in asms)
        o.classes["user_dz"] = sp["setup"].get("axial_mesh_size") is not None
        ncell = max(len(ap["zb"]) - 1 for ap in sp["power"]["files"][0].values())
        order = max(len(comp["base"][0]) - 1 for ap in sp["power"]["files"][0].values()
                    for key, comp in ap.items() if key in ("pins", "duct", "cool"))
        o.classes["cells"] = ncell
        o.classes["order"] = order
        scale = max(abs(exp_tot), 1e-300)
        # assigned power known before the sweep
        o.check(abs(r.total_power - exp_tot) <= 1e-9 * scale + 1e-12, "reactor_total_power",
                "Reactor.total_power %.10e vs analytic %.10e" % (r.total_power, exp_tot))
        worst = 0.0
        for a in asms:
            e = exp[str(a.id + 1)]["total"]
            d = abs(a.total_power - e) / scale
            worst = max(worst, d)
            o.check(d <= 1e-9, "assembly_total_power", "asm %d: %.10e vs analytic %.10e" % (a.id, a.total_power, e))
        o.metric("assigned_rel_err", worst)
        drive.sweep(r)
        worst = 0.0
        tot_del = 0.0
        # the solver rounds every plane to 1e-12 m (documented); with micrometre steps that is visible
        tol = 1e-9 + 2e-12 / float(np.min(r.dz))
        for a in asms:
            pd = observe.total_power_delivered(a)
            dsum = sum(pd.values())
            tot_del += dsum
            e = exp[str(a.id + 1)]["total"]
            d = abs(dsum - e) / scale
            worst = max(worst, d)
            o.check(d <= tol, "deposited_vs_assigned", "asm %d (%s): deposited %.10e vs assigned %.10e (rel %.3e)"
                    % (a.id, "aligned" if al else "non-aligned", dsum, e, (dsum - e) / max(e, 1e-300)))
            # components only mix through the common per-cell renormalisation: loose agreement
            if len(a.region) == 1 and a.has_rodded and len(r.dz) >= 30 and e > 0:
                for comp in ("pins", "duct", "cool"):
                    dc = abs(pd[comp] - exp[str(a.id + 1)][comp]) / e
                    o.metric("component_rel_err", dc)
                    o.check(dc <= 2e-2, "component_deposit_" + comp, "asm %d: %.6e vs %.6e"
                            % (a.id, pd[comp], exp[str(a.id + 1)][comp]))
        o.metric("deposited_rel_err", worst)
        # the heat must actually arrive: with constant properties the enthalpy rise of all flowing coolant
        # (assemblies + gap) equals the assigned power (classes that are not conservative by construction -
        # stagnant bypass, six-node lag, conv_approx - are left to C02)
        from .C02 import asm_kind
        kinds = [asm_kind(a) for a in asms]
        clean = not any(("stagnant" in k_ or "6node" in k_) for k_ in kinds) and \
            not any(getattr(g, "_conv_approx", False) for a in asms for g in a.region) and \
            r.core.model in (None, "flow")
        o.classes["enthalpy_clause"] = clean
        if clean and exp_tot > 0:
            T0 = float(sp["core"]["coolant_inlet_temp"])
            H = 0.0
            for a in asms:
                reg = a.active_region
                cpa = float(reg.coolant.heat_capacity)
                H += sum(cpa * float(np.dot(m, t - T0)) for _, m, t in observe.streams(reg))
            if r.core.model == "flow":
                H += float(r.core.gap_coolant.heat_capacity) * float(np.dot(r.core._sc_mfr, r.core.coolant_gap_temp - T0))
            res = abs(H - exp_tot) / scale
            o.metric("enthalpy_vs_assigned_rel", res)
            o.check(res <= 10 * tol, "coolant_enthalpy_vs_assigned", "enthalpy rise %.10e vs assigned %.10e" % (H, exp_tot))
        o.check(abs(tot_del - exp_tot) <= tol * scale + 1e-12, "core_deposited_total",
                "%.10e vs %.10e" % (tot_del, exp_tot))
        # the same input read and set up once more in this process (next time point, orificing iteration, a script):
        # the assigned powers are again the integrals of the same files
        c.read()
        r2 = c.make_reactor()
        o.check(abs(r2.total_power - exp_tot) <= 1e-9 * scale + 1e-12, "second_setup_total_power",
                "second Reactor from the same input: %.10e vs analytic %.10e" % (r2.total_power, exp_tot))
        for a in r2.assemblies:
            e = exp[str(a.id + 1)]["total"]
            o.check(abs(a.total_power - e) <= 1e-9 * scale, "second_setup_assembly_power",
                    "asm %d: %.10e vs analytic %.10e" % (a.id, a.total_power, e))
        o.nontrivial = order >= 1 and (ncell >= 2 or not al) and exp_tot > 0
    return o


def run_scaling(spec):
    """Constant properties: scaling the power by s scales every temperature rise by s; halving the requested
    step leaves the deposited power unchanged."""
    o = Outcome()
    s = spec["_scale"]
    T0 = float(spec["core"]["coolant_inlet_temp"])
    out = []
    base_len = None
    for k in range(3):
        sp = copy.deepcopy(spec)
        if k == 1:
            sp["power"]["scaling"] = s
        with drive.Case(sp) as c:
            if base_len is None:
                c.resolve_length()
                base_len = c.spec["core"]["length"]
                req = None
            sp2 = copy.deepcopy(c.spec)
        sp2["core"]["length"] = base_len
        drive.scale_lengths(sp2, base_len)
        if k == 2:
            sp2["setup"]["axial_mesh_size"] = spec["_dzfrac"] * base_len / spec["core"]["n_steps"]
        with drive.Case(sp2) as c:
            r = c.setup()
            drive.sweep(r)
            temps = [np.concatenate([t.ravel() for _, _, t in observe.streams(a.active_region)]) for a in r.assemblies]
            gapT = r.core.coolant_gap_temp.copy() if r.core.model is not None else np.zeros(0)
            dep = [sum(observe.total_power_delivered(a).values()) for a in r.assemblies]
            out.append((np.concatenate(temps + [gapT]), dep, np.array(r.z)))
            dzmin = float(np.min(r.dz))
    o.classes["n_asm"] = len(out[0][1])
    o.classes["scale"] = "%.3g" % s
    rise1 = out[0][0] - T0
    rise2 = out[1][0] - T0
    ref = max(float(np.max(np.abs(rise1))), 1e-300)
    err = float(np.max(np.abs(rise2 - s * rise1))) / (max(s, 1.0) * ref)
    o.metric("linearity_rel_err", err)
    # (absolute floor: with a zero power profile both rises are round-off of T0)
    o.check(err * max(s, 1.0) * ref <= 1e-9 * max(s, 1.0) * ref + 1e-11 * T0, "temperature_rise_linear_in_power",
            "max |rise(sP) - s rise(P)| = %.3e of the rise" % err)
    for a, (d0, d1) in enumerate(zip(out[0][1], out[1][1])):
        o.check(abs(d1 - s * d0) <= 1e-10 * max(abs(d1), 1e-300) + 1e-12, "deposited_scales", "asm %d" % a)
    for a, (d0, d2) in enumerate(zip(out[0][1], out[2][1])):
        o.metric("step_dependence_rel", abs(d2 - d0) / max(abs(d0), 1e-300))
        o.check(abs(d2 - d0) <= (1e-9 + 4e-12 / dzmin) * max(abs(d0), 1e-300) + 1e-12, "deposited_independent_of_step",
                "asm %d: %.10e (dz) vs %.10e (smaller dz)" % (a, d0, d2))
    o.classes["mesh_changed"] = len(out[2][2]) != len(out[0][2])
    o.nontrivial = ref > 1e-6 and o.classes["mesh_changed"]
    return o


@st.composite
def total_cases(draw, q):
    spec = draw(gen.core_spec(core_rings=(1, 2), n_types=(1, 3), rings=(2, 4), ducts=(1, 2),
                              gap_models=("flow", "none", "no_flow"), regimes=("lam", "tra", "tur"),
                              n_steps=(20, 90), regions=True, lowfi=True, max_cells=4, byp_frac=(0.02, 0.3)))
    norm = draw(st.sampled_from(["none", "given", "given", "zero"]))
    if norm == "none":
        spec["power"]["total_power"] = None
    elif norm == "zero":
        spec["power"]["total_power"] = 0.0
    if draw(st.booleans()):
        spec["power"]["scaling"] = gen.r6(draw(gen.fl(0.1, 3.0)))
    if draw(st.booleans()):
        spec["setup"]["axial_mesh_size_frac"] = gen.r6(draw(gen.logfl(0.002, 0.2)))
    return spec


@st.composite
def scaling_cases(draw):
    spec = draw(gen.core_spec(core_rings=(1, 2), n_types=(1, 2), rings=(2, 3), ducts=(1, 2),
                              gap_models=("flow", "none"), regimes=("lam", "tra", "tur"),
                              n_steps=(20, 60), regions=True, lowfi=True, max_cells=3, byp_frac=(0.02, 0.3)))
    spec["_scale"] = gen.r6(draw(gen.fl(0.2, 4.0)))
    spec["_dzfrac"] = gen.r6(draw(gen.fl(0.2, 0.7)))
    return spec


# ---------------------------------------------------------------------------------------------------------------------
# binary-flux (VARPOW) power: the two intact single-assembly data sets of the repository
ARC_FILES = ("pmatrx", "geodst", "ndxsrf", "znatdn", "labels", "nhflux", "ghflux")
ARC_LEN = 3.75  # m, fixed by GEODST
ARC_INCH = {"pin_pitch": 0.2575, "pin_diameter": 0.2128, "clad_thickness": 0.0138, "wire_pitch": 8.0,
            "wire_diameter": 0.0433, "ftf": (4.3165, 4.5543), "pitch": 4.7244}


def arc_text(sp, data_dir):
    u = {"m": 0.0254, "cm": 2.54, "in": 1.0}[sp["len_unit"]]     # inches -> unit
    um = {"m": 1.0, "cm": 100.0, "in": 1.0 / 0.0254}[sp["len_unit"]]  # metres -> unit
    g = ARC_INCH
    L = []
    L.append("[Setup]")
    if sp.get("axial_mesh_size") is not None:
        L.append("    axial_mesh_size = %.10g" % (sp["axial_mesh_size"] * um))
    L.append("    calc_energy_balance = True")
    L.append("    [[Units]]")
    L.append("        temperature = K")
    L.append("        length = %s" % sp["len_unit"])
    L.append("        mass_flow_rate = kg/s")
    L.append("[Power]")
    if sp.get("total_power") is not None:
        L.append("    total_power = %.10g" % sp["total_power"])
    if sp.get("scaling") is not None:
        L.append("    power_scaling_factor = %.10g" % sp["scaling"])
    L.append("    [[ARC]]")
    L.append("        fuel_material = %s" % sp["fuel_material"])
    if sp.get("fuel_alloy"):
        L.append("        fuel_alloy = %s" % sp["fuel_alloy"])
    if sp.get("coolant_heating"):
        L.append("        coolant_heating = %s" % sp["coolant_heating"])
    if sp.get("power_model"):
        L.append("        power_model = %s" % sp["power_model"])
    for f in ARC_FILES:
        L.append("        %s = %s" % (f, os.path.join(data_dir, f.upper())))
    L.append("[Core]")
    L.append("    coolant_inlet_temp = 623.15")
    L.append("    coolant_material = %s" % sp["coolant"])
    L.append("    length = %.10g" % (ARC_LEN * um))
    L.append("    gap_model = none")
    L.append("    assembly_pitch = %.10g" % (g["pitch"] * u))
    L.append("    bypass_fraction = 0.0")
    L.append("[Assembly]")
    L.append("    [[fuel]]")
    L.append("        num_rings = 10")
    for k in ("pin_pitch", "pin_diameter", "clad_thickness", "wire_pitch", "wire_diameter"):
        L.append("        %s = %.10g" % (k, g[k] * u))
    L.append("        duct_ftf = %.10g, %.10g" % (g["ftf"][0] * u, g["ftf"][1] * u))
    L.append("        duct_material = ht9")
    L.append("        corr_mixing = %s" % sp["corr"][0])
    L.append("        corr_friction = %s" % sp["corr"][1])
    L.append("        corr_flowsplit = %s" % sp["corr"][2])
    L.append("        corr_nusselt = DB")
    regs = [(n, r) for n, r in (("lower", sp.get("lower")), ("upper", sp.get("upper"))) if r]
    if regs:
        L.append("        [[[AxialRegion]]]")
        for n, r in regs:
            L.append("            [[[[%s]]]]" % n)
            L.append("                z_lo = %.10g" % (r["z_lo"] * um))
            L.append("                z_hi = %.10g" % (r["z_hi"] * um))
            L.append("                vf_coolant = %.6g" % r["vf"])
            if r.get("model"):
                L.append("                model = %s" % r["model"])
    L.append("[Assignment]")
    L.append("    [[ByPosition]]")
    if sp.get("outlet_temp") is not None:
        L.append("        fuel = 1, 1, 1, outlet_temp=%.10g" % sp["outlet_temp"])
    else:
        L.append("        fuel = 1, 1, 1, flowrate=%.10g" % sp["flowrate"])
    return "\n".join(L) + "\n"


def _poly_integral(arr):
    """sum over items of the integral over zeta in [-1/2, 1/2] of sum_j a_j zeta^j (per axial cell)."""
    if arr is None:
        return 0.0
    n = arr.shape[2]
    w = np.array([((0.5) ** (j + 1) - (-0.5) ** (j + 1)) / (j + 1) for j in range(n)])
    return np.tensordot(arr, w, axes=([2], [0])).sum(axis=1)


def _arc_run(sp, tmp, tag):
    import dassh
    from .. import env
    d = os.path.join(tmp, tag)
    os.makedirs(d)
    path = os.path.join(d, "input.txt")
    with open(path, "w") as f:
        f.write(arc_text(sp, os.path.join(env.REPO, "tests", "test_data", "single_asm_" + sp["dataset"])))
    cwd = os.getcwd()
    os.chdir(d)
    try:
        inp = drive.guarded("read", dassh.DASSH_Input, path)
        r = drive.guarded("setup", dassh.Reactor, inp, calc_energy_balance=True)
        a = r.assemblies[0]
        pw = a.power
        cell = np.diff(pw.z_finemesh)                       # cm
        ref = float(np.sum(cell * (_poly_integral(pw.pin_power) + _poly_integral(pw.duct_power)
                                   + _poly_integral(pw.coolant_power))))
        assigned = float(a.total_power)
        rtot = float(r.total_power)
        drive.guarded("sweep", drive.sweep, r)
        pd = observe.total_power_delivered(a)
        return {"ref": ref, "assigned": assigned, "rtot": rtot, "pd": pd, "dzmin": float(np.min(r.dz)), "nz": len(r.z),
                "zfm": np.array(pw.z_finemesh) * 1e-2, "nreg": len(a.region),
                "Tout": float(a.active_region.avg_coolant_temp)}
    finally:
        os.chdir(cwd)


def run_arc(spec):
    """VARPOW power: (1) Assembly.total_power equals the harness' integral of the coefficient arrays, (2) the sweep deposits
    exactly that, for any step size and any position of the bundle bounds, (3) normalisation and scaling: total = P*s, or
    s times the un-normalised VARPOW total of a reference run of the same data set."""
    import tempfile, shutil
    o = Outcome()
    tmp = tempfile.mkdtemp(prefix="vf_arc_")
    try:
        res = _arc_run(spec, tmp, "case")
        base = dict(spec, total_power=None, scaling=None, axial_mesh_size=None, lower=None, upper=None)
        ref0 = _arc_run(base, tmp, "base")
    finally:
        shutil.rmtree(tmp, ignore_errors=True)
    s = 1.0 if spec.get("scaling") is None else spec["scaling"]
    P = spec.get("total_power")
    exp = (P if P is not None else ref0["assigned"]) * s
    scale = max(abs(exp), 1e-300)
    tol = 1e-9 + 2e-12 / res["dzmin"]
    o.classes.update({"dataset": spec["dataset"], "norm": "given" if P is not None else "none", "scaled": s != 1.0,
                      "regions": res["nreg"], "user_dz": spec.get("axial_mesh_size") is not None, "unit": spec["len_unit"],
                      "fuel": spec["fuel_material"], "bc": "T" if spec.get("outlet_temp") is not None else "flow"})
    zb = [r_[k] for r_ in (spec.get("lower"), spec.get("upper")) if r_ for k in ("z_lo", "z_hi")]
    inside = [z for z in zb if 1e-9 < z < ARC_LEN - 1e-9 and np.min(np.abs(res["zfm"] - z)) > 1e-6]
    o.classes["bound_inside_power_cell"] = len(inside)
    o.check(abs(ref0["ref"] - ref0["assigned"]) <= 1e-9 * ref0["assigned"], "arc_base_total_vs_integral",
            "%.10e vs %.10e" % (ref0["assigned"], ref0["ref"]))
    o.check(abs(res["rtot"] - exp) <= 1e-9 * scale, "arc_reactor_total_power", "%.10e vs expected %.10e" % (res["rtot"], exp))
    o.check(abs(res["assigned"] - exp) <= 1e-9 * scale, "arc_assembly_total_power",
            "%.10e vs expected %.10e" % (res["assigned"], exp))
    o.check(abs(res["ref"] - exp) <= 1e-9 * scale, "arc_profile_integral", "integral of the coefficient arrays %.10e vs %.10e"
            % (res["ref"], exp))
    dep = sum(res["pd"].values())
    o.metric("arc_deposited_rel_err", abs(dep - exp) / scale)
    o.check(abs(dep - exp) <= tol * scale, "arc_deposited_vs_assigned", "deposited %.10e vs assigned %.10e (%s)"
            % (dep, exp, {k: "%.6e" % v for k, v in res["pd"].items()}))
    o.check(all(v >= -1e-9 * scale for v in res["pd"].values()), "arc_negative_component", str(res["pd"]))
    # without unrodded regions nothing may be booked as reflector power; with them something must be
    if res["nreg"] == 1:
        o.check(abs(res["pd"].get("refl", 0.0)) <= 1e-12 * scale, "arc_refl_power_without_region", str(res["pd"].get("refl")))
    dep0 = sum(ref0["pd"].values())
    o.check(abs(dep0 - ref0["assigned"]) <= (1e-9 + 2e-12 / ref0["dzmin"]) * ref0["assigned"], "arc_deposited_vs_assigned",
            "base run: %.10e vs %.10e" % (dep0, ref0["assigned"]))
    o.nontrivial = exp > 0 and (len(inside) > 0 or spec.get("axial_mesh_size") is not None or s != 1.0)
    return o


@st.composite
def arc_cases(draw):
    sp = {"kind": "arc", "dataset": draw(st.sampled_from(["refl", "vac"])),
          "len_unit": draw(st.sampled_from(["m", "cm", "in"])),
          "fuel_material": draw(st.sampled_from(["metal", "metal", "oxide", "nitride"])),
          "coolant": draw(st.sampled_from(["sodium", "sodium_se2anl"])),
          "corr": draw(st.sampled_from([["MIT", "NOV", "MIT"], ["CTD", "CTD", "CTD"], ["CTD", "CTS", "CTD"], ["UCTD", "UCTD", "UCTD"]]))}
    sp["fuel_alloy"] = draw(st.sampled_from(["zr", "al"])) if sp["fuel_material"] == "metal" else None
    sp["coolant_heating"] = draw(st.sampled_from(["sodium", "sodium", "nak", "lead", None]))
    if sp["coolant_heating"] is None and sp["coolant"] != "sodium":
        sp["coolant_heating"] = "na"       # (the coolant name must be one VARPOW knows when no heating material is named)
    sp["power_model"] = draw(st.sampled_from([None, "distribute", "pin_only"]))
    sp["total_power"] = gen.r6(draw(gen.logfl(1e4, 2e7))) if draw(st.booleans()) else None
    sp["scaling"] = gen.r6(draw(gen.fl(0.1, 3.0))) if draw(st.booleans()) else None
    sp["axial_mesh_size"] = gen.r6(draw(gen.logfl(0.002, 0.2))) if draw(st.booleans()) else None
    model = st.sampled_from([None, "simple", "6node"])
    if draw(st.booleans()):
        sp["lower"] = {"z_lo": 0.0, "z_hi": gen.r6(draw(gen.fl(0.2, 1.7))), "vf": gen.r6(draw(gen.fl(0.15, 0.6))), "model": draw(model)}
    if draw(st.booleans()):
        sp["upper"] = {"z_lo": gen.r6(draw(gen.fl(2.0, 3.5))), "z_hi": ARC_LEN, "vf": gen.r6(draw(gen.fl(0.15, 0.6))), "model": draw(model)}
    if draw(st.booleans()):
        sp["outlet_temp"] = gen.r6(draw(gen.fl(700.0, 850.0)))
    else:
        sp["flowrate"] = gen.r6(draw(gen.logfl(8.0, 60.0)))
    return sp


def parts(tier):
    q = tier == "quick"
    return [
        Part("totals", run_total, strategy=total_cases(q), examples=96 if q else 3000),
        Part("scaling_pairs", run_scaling, strategy=scaling_cases(), examples=24 if q else 600, timeout=120),
        Part("varpow_binary_flux", run_arc, strategy=arc_cases(), examples=32 if q else 600, timeout=180),
    ]

"""C15 - reported peak temperatures are the maxima over the whole sweep."""
import os
import re

import numpy as np
from hypothesis import strategies as st

from .. import drive, gen, units
from ..runner import Outcome, Part

ID = "C15"
TITLE = "Reported peak temperatures are the maxima over the whole sweep"
TECHNIQUE = "property-based testing (Hypothesis): the step driver keeps its own running maxima of every field at every computed plane of generated sweep histories and compares them with Assembly._peak and with the tables parsed from dassh.out"
RULE = ("generated cores (1-4 assemblies, multi-region assemblies whose duct count changes along the height, double ducts, "
        "Fuel-/PinModel, power shapes with the peak at the bottom, middle or top and zero-power cells that create "
        "plateaus) swept step by step; non-trivial: the coolant peak is not at the last plane, or the assembly has > 1 "
        "region or a pin model; distinct = spec hash")
ASSUMPTIONS = ["maxima are taken over the planes the sweep computes (z[1:]); the field of a plane is read from the region that computed it",
               "heights compared with 1e-9 m slack (Assembly accumulates its own z); ties may report any plane attaining the maximum"]
LEVEL_NOTE = "peak values exact (same floating-point numbers), table values to the printed precision"

PIN_KEYS = ["clad_od", "clad_mw", "clad_id", "fuel_od", "fuel_cl"]


class Recorder(object):
    def __init__(self, asm):
        self.asm = asm
        self.cool = (-np.inf, [])
        nd = len(asm._peak["duct"])
        self.duct = [(-np.inf, []) for _ in range(nd)]
        self.pin = {k: (-np.inf, []) for k in PIN_KEYS}
        self.rows = {}

    @staticmethod
    def upd(cur, val, z, extra=None):
        if val > cur[0]:
            return (val, [(z, extra)])
        if val == cur[0]:
            cur[1].append((z, extra))
        return cur

    def observe(self, i, z, reg):
        self.cool = self.upd(self.cool, float(np.max(reg.temp["coolant_int"])), z)
        mw = reg.temp["duct_mw"]
        nd = len(self.duct)
        for d in range(mw.shape[0]):
            j = nd - mw.shape[0] + d
            self.duct[j] = self.upd(self.duct[j], float(np.max(mw[d])), z)
        if hasattr(reg, "pin_temps"):
            t = reg.pin_temps
            for c, k in enumerate(PIN_KEYS):
                col = t[:, 4 + c]
                p = int(np.argmax(col))
                self.pin[k] = self.upd(self.pin[k], float(col[p]), z, (i, [int(x) for x in np.nonzero(col == col[p])[0]]))
            self.rows[i] = t[:, 2:].copy()


def run(spec):
    o = Outcome()
    u = spec.get("_units") or {"length": "m", "temperature": "kelvin"}
    with drive.Case({k: v for k, v in spec.items() if k != "_units"}) as c0:
        c0.resolve_length()
        si = c0.spec
    spec_u = units.convert(si, u["length"], u["temperature"], "kg", "s")
    o.classes["units"] = "%s/%s" % (u["length"], u["temperature"])
    with drive.Case(spec_u) as c:
        r = c.setup(write_output=True)
        recs = [Recorder(a) for a in r.assemblies]
        zs = {}

        def after(i, z, dz, regs):
            zs[i] = z
            for rec, reg in zip(recs, regs):
                rec.observe(i, z, reg)
        drive.guarded("data_setup", lambda: (r._data_setup(), r._data_open()))
        drive.sweep(r, None, after)
        try:
            r._data_close()
        except (AttributeError, KeyError):
            pass
        L = float(r.z[-1])
        nontrivial = False
        for k, (a, rec) in enumerate(zip(r.assemblies, recs)):
            pk = a._peak
            # coolant
            o.check(pk["cool"][0] == rec.cool[0], "peak_coolant_value", "asm %d: reported %.10f, maximum over the sweep %.10f"
                    % (k, pk["cool"][0], rec.cool[0]))
            o.check(any(abs(pk["cool"][1] - z) <= 1e-9 for z, _ in rec.cool[1]), "peak_coolant_height",
                    "asm %d: reported z=%.9f, attained at %s" % (k, pk["cool"][1], [round(z, 9) for z, _ in rec.cool[1]][:4]))
            for d, (val, where) in enumerate(rec.duct):
                if val == -np.inf:
                    continue
                o.check(pk["duct"][d][0] == val, "peak_duct_value", "asm %d duct %d: reported %.10f, maximum %.10f"
                        % (k, d, pk["duct"][d][0], val))
                o.check(any(abs(pk["duct"][d][1] - z) <= 1e-9 for z, _ in where), "peak_duct_height",
                        "asm %d duct %d: reported z=%.9f attained at %s" % (k, d, pk["duct"][d][1], [round(z, 9) for z, _ in where][:4]))
            if "pin" in pk:
                for key in PIN_KEYS:
                    val, where = rec.pin[key]
                    rep = pk["pin"][key]
                    o.check(rep[0] == val, "peak_pin_value_" + key, "asm %d: reported %.10f, maximum %.10f" % (k, rep[0], val))
                    row = np.array(rep[2], float)
                    okrow = False
                    for z, (i, pins) in where:
                        for p in pins:
                            ref = rec.rows[i][p]           # [pin index, coolant, clad od, mw, id, fuel od, cl]
                            if len(row) == 9 and abs(row[1] - z) <= 1e-9 and int(row[2]) == p and np.array_equal(row[3:], ref[1:]):
                                okrow = True
                    o.check(okrow, "peak_pin_profile_" + key,
                            "asm %d: stored profile (z=%.9f, pin %d) is not the profile of a pin/height attaining the peak %s"
                            % (k, row[1] if len(row) > 1 else -1, int(row[2]) if len(row) > 2 else -1,
                               [(round(z, 6), pins[:3]) for z, (i, pins) in where][:3]))
                    col = 4 + PIN_KEYS.index(key)
                    o.check(len(row) == 9 and row[col] == val, "peak_pin_profile_column_" + key)
            if not any(abs(z - L) <= 1e-9 for z, _ in rec.cool[1]) or len(a.region) > 1 or "pin" in pk:
                nontrivial = True
        # summary tables
        res = drive.guarded("postprocess", r.postprocess)
        out = os.path.join(r.path, "dassh.out")
        txt = open(out).read() if os.path.exists(out) else ""
        o.classes["has_output"] = bool(txt)
        if txt:
            check_tables(o, txt, r, recs, 1.0 / units.LENGTH[u["length"]], lambda T: units.t_from_k(T, u["temperature"]))
        o.classes.update({"n_asm": len(r.assemblies), "pin_model": any("pin" in a._peak for a in r.assemblies),
                          "pins_off_above": min(spec.get("_pins_off_above", 0), 2),
                          "max_regions": max(len(a.region) for a in r.assemblies),
                          "peak_pos": "top" if any(abs(z - L) <= 1e-9 for z, _ in recs[0].cool[1]) else "below_top"})
        o.nontrivial = nontrivial
    return o


def table_rows(txt, title):
    """Rows (lists of tokens) of the table whose title line contains `title`."""
    i = txt.find(title)
    if i < 0:
        return None
    rows = []
    started = False
    for line in txt[i:].splitlines()[1:]:
        toks = line.split()
        if toks and re.fullmatch(r"\d+", toks[0]):
            rows.append(toks)
            started = True
        elif started and not line.strip():
            break
    return rows


def num(tok):
    try:
        return float(tok)
    except ValueError:
        return None


def printed(tok, want):
    """True if token `tok` is `want` rounded to the token's printed precision."""
    v = num(tok)
    if v is None:
        return False
    if "E" in tok.upper():
        mant = tok.upper().split("E")[0]
        dec = len(mant.split(".")[1]) if "." in mant else 0
        return abs(v - want) <= 0.51 * 10.0 ** (-dec) * 10.0 ** np.floor(np.log10(max(abs(want), 1e-300)))
    dec = len(tok.split(".")[1]) if "." in tok else 0
    # a number wider than its column is cut to the column width (7 characters in the pin tables), i.e. truncated
    unit = 1.0 if len(tok) >= 7 else 0.51
    return abs(v - want) <= unit * 10.0 ** (-dec) + 1e-9 * abs(want)


def check_tables(o, txt, r, recs, Lc=1.0, Tc=lambda T: T):
    rows = table_rows(txt, "COOLANT TEMPERATURE SUMMARY")
    if not o.check(rows is not None and len(rows) == len(r.assemblies), "coolant_table_missing",
                   "rows %s" % (None if rows is None else len(rows))):
        return
    for row, a, rec in zip(rows, r.assemblies, recs):
        # Asm Name Power Flow Bulk-outlet Peak-outlet Peak-total Peak+Unc Peak-height
        o.check(row[1] == a.name, "coolant_table_order", "%s vs %s" % (row[1], a.name))
        want = {"bulk_outlet": (4, Tc(float(a.avg_coolant_temp))),
                "peak_outlet": (5, Tc(float(np.max(a.active_region.temp["coolant_int"])))),
                "peak_total": (6, Tc(rec.cool[0]))}
        for name, (col, w) in want.items():
            o.check(printed(row[col], w), "coolant_table_" + name, "asm %s: %.6f printed as %s" % (a.name, w, row[col]))
        o.check(any(printed(row[8], z * Lc) for z, _ in rec.cool[1]), "coolant_table_peak_height",
                "asm %s: printed %s, attained at %s" % (a.name, row[8], [round(z, 6) for z, _ in rec.cool[1]][:3]))
    rows = table_rows(txt, "DUCT TEMPERATURE SUMMARY")
    if o.check(rows is not None, "duct_table_missing"):
        it = iter(rows)
        for a, rec in zip(r.assemblies, recs):
            # one row per duct of the *active (last) region*; the peak list is aligned with the outermost ducts
            nd_last = a.active_region.temp["duct_mw"].shape[0]
            for d in range(nd_last):
                row = next(it, None)
                if not o.check(row is not None, "duct_table_rows"):
                    return
                line = " ".join(row)
                toks = [t for t in re.split(r"\s+", re.sub(r"\([^)]*\)", " ", line)) if t]
                j = len(rec.duct) - nd_last + d
                val, where = rec.duct[j]
                o.check(printed(toks[-2], Tc(val)), "duct_table_peak", "asm %s duct %d: %.6f printed as %s" % (a.name, d, val, toks[-2]))
                o.check(any(printed(toks[-1], z * Lc) for z, _ in where), "duct_table_peak_height",
                        "asm %s duct %d: printed %s" % (a.name, d, toks[-1]))
                avg = a.active_region.temp["duct_mw"][d]
    pins = [(a, rec) for a, rec in zip(r.assemblies, recs) if "pin" in a._peak]
    for title, key in (("PEAK CLAD MW TEMPERATURES", "clad_mw"), ("PEAK FUEL CL TEMPERATURES", "fuel_cl")):
        rows = table_rows(txt, title) or []
        if not o.check(len(rows) == len(pins), "pin_table_rows_" + key, "%d rows for %d assemblies with a pin model"
                       % (len(rows), len(pins))):
            continue
        for row, (a, rec) in zip(rows, pins):
            # ID Name Pin Height Power Cool CladOD CladMW CladID FuelOD FuelCL ...
            val = rec.pin[key][0]
            col = {"clad_mw": 7, "fuel_cl": 10}[key]
            o.check(printed(row[col], Tc(val)), "pin_table_peak_" + key, "asm %s: %.6f printed as %s" % (a.name, val, row[col]))
            prof = a._peak["pin"][key][2]
            okp = all(printed(row[5 + j], Tc(prof[3 + j])) for j in range(6)) and printed(row[3], prof[1] * Lc)
            o.check(okp, "pin_table_profile_" + key, "asm %s: %s vs %s" % (a.name, row[5:11], [round(x, 2) for x in prof[3:]]))
            o.check(int(row[2]) == int(prof[2]), "pin_table_pin_" + key)


@st.composite
def cases(draw, q):
    spec = draw(gen.core_spec(core_rings=(1, 2), n_types=(1, 2), rings=(2, 3) if q else (2, 5), ducts=(1, 2),
                              gap_models=("flow", "none", "no_flow"), regimes=("lam", "tra", "tur"),
                              n_steps=(25, 70), regions=True, lowfi=True, max_cells=4, byp_frac=(0.02, 0.3),
                              dT=(20.0, 200.0)))
    for name, a in spec["assemblies"].items():
        if a.get("use_low_fidelity_model"):
            continue
        k = draw(st.integers(0, 2))
        if k == 1:
            gen.attach_pin_model(spec, name, draw(gen.fuel_model()), fuel=True)
        elif k == 2:
            pm, mats = draw(gen.pin_model())
            mats = {"%s_%s" % (name.lower(), kk): v for kk, v in mats.items()}
            pm["pin_material"] = ["%s_%s" % (name.lower(), kk) for kk in pm["pin_material"]]
            gen.attach_pin_model(spec, name, pm, mats, fuel=False)
    spec["_units"] = {"length": draw(st.sampled_from(["m", "m", "cm", "mm", "in", "ft"])),
                      "temperature": draw(st.sampled_from(["kelvin", "kelvin", "celsius", "fahrenheit"]))}
    # shape class "pins off above": pin power only in the lower power cells while duct / coolant heating goes on (and
    # is made substantial), so that the hottest clad and fuel are found where no pin generates power
    spec["_pins_off_above"] = 0
    if draw(st.integers(0, 2)) == 0:
        for ap in spec["power"]["files"][0].values():
            ncell = len(ap["zb_frac"]) - 1
            if ncell >= 2 and "pins" in ap and ("cool" in ap or "duct" in ap):
                j = draw(st.integers(1, ncell - 1))
                for c in range(j, ncell):
                    ap["pins"]["base"][c] = [0.0] * len(ap["pins"]["base"][c])
                f = draw(st.sampled_from([5.0, 20.0, 60.0]))
                for key in ("cool", "duct"):
                    if key in ap:
                        ap[key]["base"] = [[gen.r6(x * f) for x in row] for row in ap[key]["base"]]
                spec["_pins_off_above"] += 1
    return spec


def parts(tier):
    q = tier == "quick"
    return [Part("peaks", run, strategy=cases(q), examples=64 if q else 2000, timeout=180)]

"""C10 - duct-to-gap mesh mapping is positive, exact on constants, conservative."""
import numpy as np
from hypothesis import strategies as st

from .. import drive, env, gen
from ..runner import Outcome, Part

ID = "C10"
TITLE = "Duct-to-gap mesh mapping is positive, exact on constants, conservative"
TECHNIQUE = "property-based testing (Hypothesis) + exhaustive enumeration of ring-count pairs: differential test of _map_asm2gap against an independent interval-overlap reference model, of the transfer function map_across_gap on generated fields, and of the maps and shared gap-cell widths a real Reactor builds for generated mixed cores"
RULE = ("pairs_exhaustive: all (region rings 1..15) x (neighbour rings 1..15) with the finer mesh on the gap side, one "
        "canonical pitch set each plus per-side mixed neighbours; generated: hypothesis draws ring counts, pitches, "
        "corner lengths per hex side (equal-count / shifted-boundary cases included); reactor_maps: maps built by "
        "Reactor._setup_gap_mesh_params for generated cores with 1-3 assembly types, unrodded regions and empty "
        "positions.  Non-trivial: region mesh and gap mesh differ on at least one side; distinct = spec hash")
ASSUMPTIONS = ["reference model: overlap lengths of arcs on the duct perimeter (own code), weights overlap/width",
               "generated boundary vectors follow the call-site construction (first region cell is the half top corner, "
               "gap boundaries strictly inside (0, perimeter), gap mesh at least as fine as the region mesh on every side)"]
LEVEL_NOTE = "entries, row sums and both conservation identities to 1e-12; agreement with the reference model to 1e-12"

TOL = 1e-12


def side_bounds(S, sides):
    """Boundaries on (0, 6S) of a mesh given per-side (n_ring, pitch, corner length c); n_ring = 1 -> corner only."""
    b = []
    for s, (n, P, c) in enumerate(sides):
        x = s * S
        if n == 1:
            b.append(x + 0.5 * S)
            continue
        x += 0.5 * c
        b.append(x)
        for _ in range(n - 1):
            x += P
            b.append(x)
    return np.array(b)


def widths_merged(xb):
    """cell widths with the split top corner merged into the last cell: xb = [0, b1, ..., perimeter]"""
    w = np.diff(xb)
    return np.append(w[1:-1], w[0] + w[-1])


def overlap_reference(xr, xf):
    """xr, xf: full boundary vectors [0, ..., perim].  Returns overlap matrix on merged cells (coarse x fine)."""
    nr, nf = len(xr) - 1, len(xf) - 1
    O = np.zeros((nr, nf))
    for j in range(nr):
        for i in range(nf):
            lo = max(xr[j], xf[i])
            hi = min(xr[j + 1], xf[i + 1])
            if hi > lo:
                O[j, i] = hi - lo
    # merge first/last (top corner) on both axes, then drop index 0
    O[-1, :] += O[0, :]
    O[:, -1] += O[:, 0]
    return O[1:, 1:]


def check_maps(o, f2c, c2f, xb_reg, xb_gap_inner, pad, tag=""):
    perim = xb_reg[-1]
    xf = np.concatenate(([0.0], xb_gap_inner, [perim]))
    wr = widths_merged(xb_reg)
    wf = widths_merged(xf)
    nf = len(wf)
    O = overlap_reference(xb_reg, xf)
    f_ref = O / wr[:, None]
    c_ref = O.T / wf[:, None]
    o.check(f2c.shape == (len(wr), pad) and c2f.shape == (pad, len(wr)), "map_shape" + tag,
            "%s %s" % (f2c.shape, c2f.shape))
    o.check(float(f2c.min()) >= 0.0 and float(c2f.min()) >= 0.0, "map_negative_weight" + tag,
            "%.3e %.3e" % (f2c.min(), c2f.min()))
    rs1 = np.abs(f2c.sum(axis=1) - 1.0).max()
    rs2 = np.abs(c2f[:nf].sum(axis=1) - 1.0).max()
    o.metric("rowsum_err", max(rs1, rs2))
    o.check(rs1 <= TOL, "gap2duct_constant_not_exact" + tag, "%.3e" % rs1)
    o.check(rs2 <= TOL, "duct2gap_constant_not_exact" + tag, "%.3e" % rs2)
    o.check(not np.any(f2c[:, nf:]) and not np.any(c2f[nf:]), "map_padding_not_zero" + tag)
    scale = perim
    e1 = np.abs(wr @ f2c[:, :nf] - wf).max() / scale
    e2 = np.abs(wf @ c2f[:nf] - wr).max() / scale
    o.metric("conservation_err", max(e1, e2))
    o.check(e1 <= TOL, "gap2duct_not_conservative" + tag, "max |w_duct^T M - w_gap| / perimeter = %.3e" % e1)
    o.check(e2 <= TOL, "duct2gap_not_conservative" + tag, "max |w_gap^T M - w_duct| / perimeter = %.3e" % e2)
    d1 = np.abs(f2c[:, :nf] - f_ref).max()
    d2 = np.abs(c2f[:nf] - c_ref).max()
    o.metric("reference_diff", max(d1, d2))
    o.check(d1 <= 1e-11, "gap2duct_differs_from_reference" + tag, "%.3e" % d1)
    o.check(d2 <= 1e-11, "duct2gap_differs_from_reference" + tag, "%.3e" % d2)
    # the transfer itself (the function the solver calls with these maps), on a uniform, a ramp and an irregular field
    from dassh import mesh_functions
    idx_g, idx_d = np.arange(nf, dtype=float), np.arange(len(wr), dtype=float)
    for name, vg, vd in (("uniform", np.full(nf, 731.25), np.full(len(wr), 731.25)),
                         ("ramp", 600.0 + idx_g, 600.0 + idx_d),
                         ("irregular", 500.0 + 37.0 * ((7.0 * idx_g) % 5.0), 500.0 + 37.0 * ((11.0 * idx_d) % 7.0))):
        vgp = np.zeros(pad)
        vgp[:nf] = vg
        g2d = np.asarray(mesh_functions.map_across_gap(vgp, f2c), float)
        d2g = np.asarray(mesh_functions.map_across_gap(vd, c2f), float)
        ok = g2d.shape == (len(wr),) and d2g.shape == (pad,)
        o.check(ok, "transfer_shape" + tag, "%s %s" % (g2d.shape, d2g.shape))
        if not ok:
            continue
        t1 = np.abs(g2d - f_ref @ vg).max() / 1e3
        t2 = np.abs(d2g[:nf] - c_ref @ vd).max() / 1e3
        o.metric("transfer_diff", max(t1, t2))
        o.check(t1 <= 1e-11, "gap2duct_transfer_differs_from_reference" + tag, "%s field: %.3e" % (name, t1))
        o.check(t2 <= 1e-11, "duct2gap_transfer_differs_from_reference" + tag, "%s field: %.3e" % (name, t2))
        c1 = abs(float(wr @ g2d) - float(wf @ vg)) / (scale * 1e3)
        c2 = abs(float(wf @ d2g[:nf]) - float(wr @ vd)) / (scale * 1e3)
        o.check(c1 <= TOL, "gap2duct_transfer_not_conservative" + tag, "%s field: %.3e" % (name, c1))
        o.check(c2 <= TOL, "duct2gap_transfer_not_conservative" + tag, "%s field: %.3e" % (name, c2))
        if name == "uniform":
            o.check(np.abs(g2d - 731.25).max() <= 1e-9 and np.abs(d2g[:nf] - 731.25).max() <= 1e-9,
                    "uniform_field_not_reproduced" + tag)
    same = len(xf) == len(xb_reg) and np.allclose(xf, xb_reg, rtol=0, atol=1e-13)
    if same:
        o.check(np.array_equal(f2c[:, :nf], np.identity(nf)) and np.array_equal(c2f[:nf], np.identity(nf)),
                "identical_meshes_not_identity" + tag)
    return same


def run_pair(spec):
    env.setup()
    from dassh import mesh_functions
    o = Outcome()
    S = spec["S"]
    xb_reg = np.concatenate(([0.0], side_bounds(S, [tuple(spec["reg"])] * 6), [6 * S]))
    inner = side_bounds(S, [tuple(s) for s in spec["gap_sides"]])
    pad = len(inner) + 1 + spec.get("pad", 0)
    xb_core = np.zeros(pad)
    xb_core[:len(inner)] = inner
    f2c, c2f = drive.guarded("map", mesh_functions._map_asm2gap, xb_reg, xb_core)
    same = check_maps(o, f2c, c2f, xb_reg, inner, pad)
    o.classes["reg_rings"] = spec["reg"][0]
    o.classes["mixed_sides"] = len(set(tuple(s) for s in spec["gap_sides"])) > 1
    o.classes["same_mesh"] = bool(same)
    o.classes["equal_count_shifted"] = (not same) and all(s[0] == spec["reg"][0] for s in spec["gap_sides"])
    o.nontrivial = not same
    o.sample = spec
    return o


def mesh_params(S, n, cfrac):
    """(n, pitch, corner length) filling a side of length S: (n-1) P + c = S."""
    if n == 1:
        return (1, 0.0, S)
    c = cfrac * S / n
    P = (S - c) / (n - 1)
    return (n, P, c)


def pair_cases(nmax):
    cases = []
    S = 0.07
    for nr in range(1, nmax + 1):
        for nn in range(1, nmax + 1):
            reg = mesh_params(S, nr, 0.8)
            nb = mesh_params(S, nn, 0.65)
            fine = nb if nn >= nr else reg      # the gap takes the finer mesh
            # all six sides face the neighbour type; and a mixed case: alternate own / neighbour mesh
            cases.append({"S": S, "reg": list(reg), "gap_sides": [list(fine)] * 6})
            if nn > nr:
                mixed = [list(fine) if s % 2 == 0 else list(reg) for s in range(6)]
                cases.append({"S": S, "reg": list(reg), "gap_sides": mixed, "pad": 3})
                one = [list(reg)] * 6
                one[5] = list(fine)
                cases.append({"S": S, "reg": list(reg), "gap_sides": one})
                one = [list(reg)] * 6
                one[0] = list(fine)
                cases.append({"S": S, "reg": list(reg), "gap_sides": one, "pad": 1})
    return cases


@st.composite
def generated_pairs(draw):
    S = gen.r6(draw(gen.fl(0.01, 0.15)))
    nr = draw(st.integers(1, 12))
    reg = mesh_params(S, nr, draw(gen.fl(0.3, 1.2)))
    sides = []
    kinds = draw(st.lists(st.integers(0, 3), min_size=6, max_size=6))
    nb = {}
    for k in set(kinds):
        if k == 0:
            nb[k] = reg
        elif k == 1:     # same count, different pitch / corner
            nb[k] = mesh_params(S, nr, draw(gen.fl(0.3, 1.2)))
        else:
            nn = draw(st.integers(nr, 15))
            nb[k] = mesh_params(S, nn, draw(gen.fl(0.3, 1.2)))
    for k in kinds:
        sides.append(list(nb[k]))
    return {"S": S, "reg": list(reg), "gap_sides": sides, "pad": draw(st.integers(0, 4))}


def run_reactor(spec):
    o = Outcome()
    with drive.Case(spec) as c:
        r = c.setup()
        core = r.core
        differ = 0
        for k, a in enumerate(r.assemblies):
            inner_all = core._asm_sc_xbnds[k]
            inner = inner_all[inner_all > 0]
            pad = core._asm_sc_xbnds.shape[1]
            # the gap-side weights the heat-transfer model uses must be the widths of that mesh
            xf = np.concatenate(([0.0], inner, [6.0 / np.sqrt(3.0) * a.duct_oftf]))
            wf = widths_merged(xf)
            wp = core.gap_params["asm wp"][k]
            o.check(np.abs(wp[:len(wf)] - wf).max() <= 1e-12 and not np.any(wp[len(wf):]), "asm_wp_vs_gap_bounds",
                    "asm %d: %.3e" % (k, np.abs(wp[:len(wf)] - wf).max()))
            for ri, reg in enumerate(a.region):
                xb = reg.calculate_xbnds()
                same = check_maps(o, reg._map["gap2duct"], reg._map["duct2gap"], xb, inner, pad,
                                  tag="")
                if not same:
                    differ += 1
        # both assemblies that share an edge gap cell transfer to / from the SAME cell: the width each of them sees (and
        # weights its heat with) is the same number
        seen = {}
        adj = np.asarray(core._asm_sc_adj)
        types = np.asarray(core._sc_types)
        for k in range(len(r.assemblies)):
            wp = core.gap_params["asm wp"][k]
            for col, cid in enumerate(adj[k]):
                if cid > 0 and types[int(cid) - 1] == 0:
                    seen.setdefault(int(cid), []).append((k, float(wp[col])))
        shared = 0
        for cid, lst in seen.items():
            if len(lst) >= 2:
                shared += 1
                w = [x[1] for x in lst]
                o.check(max(w) - min(w) <= 1e-12, "shared_gap_cell_width_differs_between_neighbours",
                        "gap cell %d: %s" % (cid, ["asm %d: %.10g" % x for x in lst]))
        o.classes["shared_edge_cells"] = min(shared, 5) // 5 * 5
        o.classes["n_asm"] = len(r.assemblies)
        o.classes["maps_with_mesh_difference"] = min(differ, 5)
        o.nontrivial = differ > 0
    return o


def parts(tier):
    q = tier == "quick"
    return [
        Part("pairs_exhaustive", run_pair, cases=pair_cases(15), exhaustive=True,
             note="ring counts 1..15 x 1..15, uniform and per-side mixed neighbours"),
        Part("pairs_generated", run_pair, strategy=generated_pairs(), examples=400 if q else 20000),
        Part("reactor_maps", run_reactor,
             strategy=gen.core_spec(core_rings=(2, 2) if q else (2, 3), n_types=(2, 3), rings=(2, 5), ducts=(1, 2),
                                    gap_models=("flow", "no_flow"), regimes=("lam", "tra", "tur"), n_steps=(5, 10),
                                    regions=True, lowfi=True, byp_frac=(0.02, 0.3)),
             examples=48 if q else 1500),
    ]

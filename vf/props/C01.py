"""C01 - every assembly coolant energy balance closes at every axial step."""
import copy

import numpy as np
from hypothesis import strategies as st

from .. import drive, gen, observe
from ..runner import Outcome, Part

ID = "C01"
TITLE = "Every assembly coolant energy balance closes at every axial step"
TECHNIQUE = "property-based testing (Hypothesis): per-step conservation identities on generated sweeps, metamorphic step-halving pairs, operator probing of the exchange terms; whole-sweep balance of every assembly of generated adiabatic cores (identical and nearly identical twins)"
RULE = ("generated single-assembly problems (2-6 rings, 1-3 ducts, flowing/stagnant bypass, all correlation "
        "families, Re 150..2e5, per-item polynomial power on 1-3 axial cells, adiabatic or gap-coupled wall, "
        "conv_approx, param_update_tol, low-fidelity and multi-region assemblies) driven step by step through "
        "Reactor.axial_step; a case is non-trivial when it ran >= 20 steps with non-zero power and at least "
        "one of {bypass, wall heat != 0, transition regime, > 1 axial region, low-fidelity}; distinct = spec hash")
ASSUMPTIONS = ["constant-property coolant for the round-off identities; built-in T-dependent coolants for the lag clauses",
               "stagnant bypass carries no enthalpy flow (balance over interior coolant + inner-duct tally only)",
               "enthalpy h(T) of T-dependent coolants integrates the material's own cp(T) correlation"]
LEVEL_NOTE = ("trusts the region attributes named in the property (temp, ebal, sc_mfr, byp_flow_rate, "
              "_power_delivered) as the observation points and NumPy arithmetic; tolerances 1e-9 relative per step")

TOL_STEP = 1e-9


def _classes(o, spec, r):
    m = spec["_meta"]["A"]
    a = spec["assemblies"]["A"]
    asm = r.assemblies[0]
    o.classes["n_ring"] = m["n_ring"]
    o.classes["n_duct"] = m["n_duct"]
    byp = "none"
    if m["n_duct"] > 1:
        byp = "stagnant" if a.get("bypass_gap_flow_fraction", 0.05) == 0.0 else "flowing"
    o.classes["bypass"] = byp
    o.classes["gap"] = spec["core"]["gap_model"]
    o.classes["corr"] = "%s/%s/%s" % (a["corr_friction"], a["corr_flowsplit"], a["corr_mixing"])
    Re = spec["_meta"]["Re"]
    o.classes["regime"] = "lam" if Re < 900 else ("tra" if Re < 1.5e4 else "tur")
    o.classes["regions"] = len(asm.region)
    o.classes["lowfi"] = bool(a.get("use_low_fidelity_model"))
    o.classes["conv_approx"] = any(getattr(reg, "_conv_approx", False) for reg in asm.region)
    o.classes["limit_sc"] = str(r.min_dz["sc"][0])
    return byp


def run_core_assemblies(spec):
    """Every assembly of a core (several of one type, identical and nearly identical twins included), adiabatic walls,
    constant properties: all the heat delivered to an assembly is in its own flowing coolant at the outlet."""
    from . import C02
    return C02.run_adiabatic(spec)


def run_const(spec):
    """Constant-property coolant: balance to round-off at every step."""
    o = Outcome()
    with drive.Case(spec) as c:
        r = c.setup()
        byp = _classes(o, spec, r)
        asm = r.assemblies[0]
        adiabatic = r._is_adiabatic
        T_in = float(spec["core"]["coolant_inlet_temp"])
        state = {}
        worst = {"tally": 0.0, "indep": 0.0, "carry": 0.0}
        wall_heat = [0.0]
        steps = [0]
        fails = {}

        def before(i, z, dz):
            reg = asm.active_region
            state["snap"] = observe.snapshot(reg)
            state["pd"] = observe.total_power_delivered(asm)
            state["reg"] = reg
            if r.core.model is not None:
                state["core_asm"] = np.array(r.core.ebal["asm"][0], dtype=float).copy() \
                    if "asm" in r.core.ebal else None

        def after(i, z, dz, regs):
            reg = regs[0]
            snap = state["snap"]
            cp = snap["cp"]
            pd0, pd1 = state["pd"], observe.total_power_delivered(asm)
            dP = {k: pd1[k] - pd0[k] for k in pd1}
            now = observe.streams(reg)
            dH = {}
            scale = abs(sum(dP.values()))
            for (n0, m0, t0), (n1, m1, t1) in zip(snap["T"], now):
                dH[n0] = cp * float(np.dot(m1, t1 - t0))
                scale = max(scale, cp * float(np.dot(m1, np.abs(t1 - t0))))
                if not np.array_equal(m0, m1):
                    fails.setdefault("mass_flow_changed_during_step", "step %d stream %s" % (i, n0))
            scale = max(scale, 1e-300)
            # absolute floor: round-off of representing T ~ T_in in the enthalpy flow (1e-16 * m cp T per cell)
            floor = 1e-13 * cp * sum(float(np.sum(m1)) for _, m1, _ in now) * T_in
            # (a) the code's own wall tallies: interior and each flowing bypass stream
            q_duct = float(np.sum(reg.ebal["duct"] - snap["ebal_duct"]))
            wall_heat[0] += abs(q_duct)
            res = dH["int"] - (dP["pins"] + dP["cool"] + dP["refl"]) - q_duct
            worst["tally"] = max(worst["tally"], abs(res) / scale)
            if abs(res) > TOL_STEP * scale + floor:
                fails.setdefault("step_balance_interior", "step %d z=%.6g residual %.3e of %.3e"
                                 % (i, z, res, scale))
            for n in dH:
                if n.startswith("byp"):
                    b = int(n[3:])
                    q = float(np.sum(reg.ebal["duct_byp_in"][b] - snap["ebal_in"][b])
                              + np.sum(reg.ebal["duct_byp_out"][b] - snap["ebal_out"][b]))
                    rb = dH[n] - q
                    worst["tally"] = max(worst["tally"], abs(rb) / scale)
                    if abs(rb) > TOL_STEP * scale + floor:
                        fails.setdefault("step_balance_bypass", "step %d gap %d residual %.3e of %.3e"
                                         % (i, b, rb, scale))
            # (b) independent of the tallies: ducts store no heat, so with an adiabatic outer wall all
            # power (pins + coolant + duct + unrodded) ends up in the flowing coolant in the same step
            # (not asserted for conv_approx with duct heating: there the SE2ANL wall resistance is fed with
            # the mid-wall temperature and the flux differs from the wall solution - see C02 / finding F14)
            if adiabatic and byp != "stagnant" and not (o.classes["conv_approx"] and abs(dP["duct"]) > 0):
                tot = sum(dH.values()) - sum(dP.values())
                worst["indep"] = max(worst["indep"], abs(tot) / scale)
                if abs(tot) > TOL_STEP * scale + floor:
                    fails.setdefault("step_balance_adiabatic_total", "step %d residual %.3e of %.3e"
                                     % (i, tot, scale))
            # region change: mixed-mean temperature carried over unchanged
            new = asm.active_region
            if new is not reg:
                tm = observe.mixed_mean(reg)
                vals = [t for _, _, t in observe.streams(new)]
                if new.is_rodded and new.n_bypass > 0:
                    vals.append(new.temp["coolant_byp"].ravel())
                dev = max(float(np.max(np.abs(v - tm))) for v in vals)
                worst["carry"] = max(worst["carry"], dev)
                o.classes["region_change"] = True
                if dev > 1e-9:
                    fails.setdefault("region_change_mixed_mean", "z=%.6g deviation %.3e K" % (z, dev))
            steps[0] += 1

        drive.sweep(r, before, after)
        for k, v in fails.items():
            o.fail(k, v)
        o.checks += steps[0] * 3
        # flows: subchannel flows sum to the interior flow, streams sum to the assigned flow
        for reg in asm.region:
            tot = sum(float(np.sum(m)) for _, m, _ in observe.streams(reg))
            want = asm.flow_rate
            if reg.is_rodded and reg.n_bypass > 0 and float(np.sum(reg.byp_flow_rate)) == 0.0:
                want = reg.int_flow_rate
            o.check(abs(tot - want) <= 1e-10 * want, "stream_flows_sum", "%.12g vs %.12g" % (tot, want))
        P = sum(observe.total_power_delivered(asm).values())
        o.metric("tally_residual_rel", worst["tally"])
        o.metric("indep_residual_rel", worst["indep"])
        o.metric("carry_dev_K", worst["carry"])
        o.classes["wall_heat"] = wall_heat[0] > 1e-9 * max(P, 1e-300)
        o.nontrivial = (steps[0] >= 20 and P > 0 and
                        (byp != "none" or o.classes["wall_heat"] or o.classes["regime"] == "tra"
                         or o.classes["regions"] > 1 or o.classes["lowfi"]))
    return o


def run_exchange(spec):
    """Zero power, adiabatic wall, arbitrary temperature field: conduction + eddy + swirl only move heat."""
    o = Outcome()
    fld = spec["_field"]
    with drive.Case(spec) as c:
        r = c.setup()
        _classes(o, spec, r)
        asm = r.assemblies[0]
        reg = asm.rodded
        if reg is None:
            o.inconclusive = "no_rodded"
            return o
        r.axial_step0()
        T0 = spec["core"]["coolant_inlet_temp"]
        n = reg.temp["coolant_int"].size
        idx = np.arange(n)
        reg.temp["coolant_int"][:] = T0 + fld["amp"] * (1.0 + np.sin(fld["phase"] + fld["freq"] * idx))
        if reg.n_bypass > 0:
            nb = reg.temp["coolant_byp"].shape[1]
            for b in range(reg.n_bypass):
                reg.temp["coolant_byp"][b, :] = T0 + fld["amp"] * (1.0 + np.cos(fld["phase"] + 0.7 * np.arange(nb) + b))
        stagn = reg.n_bypass > 0 and float(np.sum(reg.byp_flow_rate)) == 0.0
        dz = float(r.dz[0])
        ng = reg.temp["duct_mw"].shape[1]
        worst = 0.0
        for step in range(3):
            before = [(nme, m.copy(), t.copy()) for nme, m, t in observe.streams(reg)]
            drive.guarded("probe", reg.calculate, dz, {"pins": None, "cool": None, "duct": None, "refl": 0.0},
                          np.ones(ng), np.ones(ng), True, False)
            now = observe.streams(reg)
            num = 0.0
            den = 0.0
            for (n0, m0, t0), (n1, m1, t1) in zip(before, now):
                if stagn and n0 != "int":
                    continue
                num += float(np.dot(m1, t1 - t0))
                den += float(np.dot(m1, np.abs(t1 - t0)))
            if stagn:
                # heat leaves the interior towards the stagnant gap; only the swirl/conduction part can be
                # isolated: compare with the wall tally
                continue
            if den > 0:
                worst = max(worst, abs(num) / den)
                o.check(abs(num) <= 1e-9 * den, "exchange_sums_to_zero", "step %d net %.3e of %.3e" % (step, num, den))
        o.metric("exchange_net_rel", worst)
        o.nontrivial = not stagn and worst >= 0.0 and fld["amp"] > 0
    return o


def run_tdep(spec):
    """T-dependent coolant, adiabatic: residual of per-stream mixed-mean enthalpy is the property lag:
    bounded and halving with the step."""
    o = Outcome()
    res = []
    info = {}
    for k, div in enumerate((1.0, 2.0)):
        sp = copy.deepcopy(spec)
        with drive.Case(sp) as c:
            if k == 0:
                c.resolve_length()
                c.write()
                c.read()
                r0 = c.make_reactor()
                req = float(r0.req_dz)
                s = float(np.floor(req * 0.8 * 1e7) / 1e7)
                N = spec["core"]["n_steps"]
                info.update({"s": s, "N": N, "req": req})
            s, N = info["s"], info["N"]
            sp["core"]["length"] = round(N * s, 9)
            drive.scale_lengths(sp, sp["core"]["length"])
            sp["setup"]["axial_mesh_size"] = s / div
            with drive.Case(sp) as c2:
                r = c2.setup()
                if k == 0:
                    _classes(o, spec, r)
                asm = r.assemblies[0]
                dzs = np.array(r.dz)
                if abs(dzs.max() - s / div) > 1e-9 * s or abs(dzs.min() - s / div) > 1e-6 * s:
                    o.inconclusive = "steps_not_uniform"
                    return o
                mat = asm.active_region.coolant
                Tin = spec["core"]["coolant_inlet_temp"]
                h0 = sum(m * observe.enthalpy(mat, Tin, t) for _, m, t in observe.stream_means(asm.active_region))
                maxdT = [0.0]
                prev = [observe.mixed_mean(asm.active_region)]

                def after(i, z, dz, regs):
                    t = observe.mixed_mean(regs[0])
                    maxdT[0] = max(maxdT[0], abs(t - prev[0]))
                    prev[0] = t
                drive.sweep(r, None, after)
                reg = asm.active_region
                h1 = sum(m * observe.enthalpy(mat, Tin, t) for _, m, t in observe.stream_means(reg))
                P = sum(observe.total_power_delivered(asm).values())
                # heat the coolant received through the walls according to the code's own tallies
                # (adiabatic outer wall: non-zero only for the wall shared with a stagnant bypass)
                Qw = float(np.sum(reg.ebal["duct"]))
                if "duct_byp_in" in reg.ebal and float(np.sum(reg.byp_flow_rate)) > 0:
                    Qw += float(np.sum(reg.ebal["duct_byp_in"]) + np.sum(reg.ebal["duct_byp_out"]))
                Tout = observe.mixed_mean(reg)
                f = mat._data["heat_capacity"]
                cps = [f(Tin + (Tout - Tin) * x) for x in np.linspace(0, 1, 21)]
                res.append({"R": (h1 - h0) - P - Qw, "P": P, "maxdT": maxdT[0], "dT": Tout - Tin,
                            "dcp": (max(cps) - min(cps)) / min(cps), "n": len(r.dz)})
    R1, R2 = res[0]["R"], res[1]["R"]
    P = res[0]["P"]
    o.metric("lag_residual_rel", abs(R1) / P)
    bound = 1.0 * (res[0]["maxdT"] / max(abs(res[0]["dT"]), 1e-9)) * res[0]["dcp"] + 1e-9
    o.metric("lag_residual_over_bound", abs(R1) / P / bound)
    o.check(abs(R1) / P <= bound, "tdep_lag_bound", "|R|/P=%.3e bound=%.3e (dT=%.1f K, %d steps)"
            % (abs(R1) / P, bound, res[0]["dT"], res[0]["n"]))
    if abs(R1) > 1e-7 * P:
        ratio = R1 / R2 if R2 != 0 else float("inf")
        o.metric("halving_ratio_dev", abs(ratio - 2.0))
        o.classes["ratio_band"] = "ok" if 1.8 <= ratio <= 2.2 else "off"
        # (with a stagnant bypass the wall heat of the two runs differs by O(dz) as well, so only the
        # bound is asserted there)
        if o.classes["bypass"] != "stagnant":
            o.check(1.8 <= ratio <= 2.2, "tdep_residual_halves", "R(dz)/R(dz/2)=%.4f R/P=%.3e (dT=%.1f K, %d steps)"
                % (ratio, R1 / P, res[0]["dT"], res[0]["n"]))
        o.nontrivial = True
    return o


@st.composite
def exchange_cases(draw):
    spec = draw(gen.single_assembly(rings=(2, 6), ducts=(1, 3), gap_model="none", n_steps=(5, 10),
                                    regimes=("low", "lam", "tra", "tur"), dT=(1.0, 5.0)))
    spec["_field"] = {"amp": gen.r6(draw(gen.fl(1.0, 200.0))), "phase": gen.r6(draw(gen.fl(0.0, 6.28))),
                      "freq": gen.r6(draw(gen.fl(0.05, 2.5)))}
    return spec


def parts(tier):
    q = tier == "quick"
    return [
        Part("const_sweep", run_const,
             strategy=gen.single_assembly(rings=(2, 5) if q else (2, 7), ducts=(1, 3), n_steps=(25, 120),
                                          conv_approx=True, tol=True, regions=True, lowfi=True,
                                          regimes=("low", "lam", "tra", "tur")),
             examples=128 if q else 4000),
        Part("core_assemblies_adiabatic", run_core_assemblies,
             strategy=gen.core_spec(core_rings=(2, 2), n_types=(1, 2), rings=(2, 4), ducts=(1, 3), gap_models=("none",),
                                    n_steps=(25, 60), regimes=("low", "lam", "tra", "tur"), regions=True, twins=True),
             examples=48 if q else 1500, timeout=120),
        Part("exchange_probe", run_exchange, strategy=exchange_cases(), examples=64 if q else 1500),
        Part("tdep_halving", run_tdep,
             strategy=gen.single_assembly(rings=(2, 4) if q else (2, 6), ducts=(1, 3), gap_model="none",
                                          coolant=["sodium", "sodium_se2anl", "lead", "nak"],
                                          n_steps=(40, 120), dT=(120.0, 300.0), max_cells=1, comps=("pins",),
                                          regimes=("lam", "tra", "tur")),
             examples=32 if q else 600),
    ]

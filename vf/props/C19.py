"""C19 - hot-spot temperatures reduce to nominal and grow with uncertainty."""
import copy
import math
import os
import shutil
import tempfile
import types

import numpy as np
from hypothesis import strategies as st

from .. import drive, env, gen
from ..runner import Outcome, Part

ID = "C19"
TITLE = "Hot-spot temperatures reduce to nominal and grow with uncertainty"
TECHNIQUE = ("property-based testing (Hypothesis): differential check of hotspot.calculate_temps / hotspot.analyze against an "
             "independent scalar implementation of the semi-statistical horizontal method, plus the metamorphic relations of the "
             "statement (unity -> nominal, >= nominal, monotone in output sigma, statistical part ~ 1/input sigma, cumulative "
             "sequence) on generated subfactor arrays, generated and built-in CSV tables, and swept reactors")
RULE = ("direct_calls: generated dT (1-6 terms, 1-6 assemblies) and direct/statistical subfactor arrays (0-6 rows, values >= 1, many "
        "exactly 1); tables: generated CSV tables (3-7 columns, float and dT-expression cells, any row order and spelling of the "
        "type) and the five built-in tables, several assembly types with several interleaved assemblies each, every location, "
        "run through hotspot.analyze on a recorded peak state; swept: generated cores with Fuel-/PinModel and [[[Hotspot]]] "
        "sections swept and analysed.  Non-trivial: at least one subfactor differs from one and output sigma > 0 (direct_calls, "
        "tables) or the sweep produced a hot-spot result (swept); distinct = spec hash")
ASSUMPTIONS = ["input sigma >= 1 (0 would divide by zero; the schema allows it but the statement's 'scales inversely' excludes it)",
               "an expression cell is evaluated with the nominal temperature rise of the term it multiplies; the Cladding column "
               "multiplies both clad half-rises",
               "a subfactor expression that is infinite at a zero temperature rise contributes nothing (it multiplies zero); the result must stay finite"]
LEVEL_NOTE = "agreement with the reference to 1e-10 relative; relations exact up to the same tolerance"

LOCS = ["coolant", "clad_od", "clad_mw", "clad_id", "fuel_od", "fuel_cl"]
NTERMS = {"coolant": 1, "clad_od": 2, "clad_mw": 3, "clad_id": 4, "fuel_od": 5, "fuel_cl": 6}
COLMAP = {"coolant": [0], "clad_od": [0, 1], "clad_mw": [0, 1, 2], "clad_id": [0, 1, 2, 2], "fuel_od": [0, 1, 2, 2, 3],
          "fuel_cl": [0, 1, 2, 2, 3, 4]}
COLS_NEEDED = {"coolant": 3, "clad_od": 4, "clad_mw": 5, "clad_id": 5, "fuel_od": 6, "fuel_cl": 7}
HEADER = ["Subfactor", "Type", "Coolant", "Film", "Cladding", "Gap", "Fuel"]
BUILTINS = {"crbr_blanket_clad_mw": 5, "crbr_fuel_clad_mw": 5, "ebrii_markv_fuel_cl": 7, "fftf_clad_mw": 5, "fftf_fuel_cl": 7}
TOL = 1e-10


def ref_temps(T_in, dT, direct, stat, IN, OUT):
    """Semi-statistical horizontal method, one assembly: dT[j]; direct[k][j]; stat[k][j] -> cumulative temperatures."""
    n = len(dT)
    z = []
    for j in range(n):
        p = 1.0
        for row in direct:
            p *= row[j]
        z.append(dT[j] * p)
    out = []
    for j in range(n):
        nominal = T_in + math.fsum(z[:j + 1])
        ss = math.fsum(math.fsum(z[i] * (row[i] - 1.0) for i in range(j + 1)) ** 2 for row in stat)
        out.append(nominal + OUT * math.sqrt(ss) / IN)
    return out


def close(a, b, scale):
    return abs(a - b) <= TOL * max(scale, 1.0)


# ------------------------------------------------------------------------------------------------
def run_direct(spec):
    from dassh import hotspot
    o = Outcome()
    T_in = spec["T_in"]
    dT = np.array(spec["dT"], float)                    # n_asm x n_t
    na, nt = dT.shape
    D = np.array(spec["direct"], float).reshape(na, -1, nt)
    S = np.array(spec["stat"], float).reshape(na, -1, nt)
    IN, OUT = spec["IN"], spec["OUT"]
    scale = T_in + float(np.sum(dT)) * 10

    def call(d, s, i, out_):
        return drive.guarded("calculate_temps", hotspot.calculate_temps, T_in, dT.copy(), {"direct": d.copy(), "statistical": s.copy()},
                             IN_sigma=i, OUT_sigma=out_)
    try:
        T = call(D, S, IN, OUT)
        T0 = call(D, S, IN, 0)
        Tp = call(D, S, IN, OUT + 1)
        Tin2 = call(D, S, IN + 1, OUT)
        Tone = call(np.ones_like(D), np.ones_like(S), IN, OUT)
    except drive.Crashed as e:
        o.fail("cannot_evaluate:%s@%s" % (e.exc_type, e.where), str(e)[:300])
        return o
    o.check(T.shape == (na, nt), "result_shape", "shape %s for %d assemblies x %d terms" % (T.shape, na, nt))
    if T.shape != (na, nt):
        return o
    nominal = T_in + np.cumsum(dT, axis=1)
    worst = 0.0
    for a in range(na):
        ref = ref_temps(T_in, list(dT[a]), [list(r) for r in D[a]], [list(r) for r in S[a]], IN, OUT)
        for j in range(nt):
            worst = max(worst, abs(T[a, j] - ref[j]) / scale)
            o.check(close(T[a, j], ref[j], scale), "differs_from_reference",
                    "asm %d term %d: %.12g, reference %.12g" % (a, j, T[a, j], ref[j]))
            o.check(close(Tone[a, j], nominal[a, j], scale), "unity_not_nominal",
                    "asm %d term %d: all subfactors one gives %.12g, nominal %.12g" % (a, j, Tone[a, j], nominal[a, j]))
            o.check(T[a, j] >= nominal[a, j] - TOL * scale, "below_nominal",
                    "asm %d term %d: hot spot %.12g below nominal %.12g" % (a, j, T[a, j], nominal[a, j]))
            o.check(Tp[a, j] >= T[a, j] - TOL * scale, "not_monotone_in_output_sigma",
                    "asm %d term %d: sigma %d -> %.12g, sigma %d -> %.12g" % (a, j, OUT, T[a, j], OUT + 1, Tp[a, j]))
            stat_part = T[a, j] - T0[a, j]
            stat_part2 = Tin2[a, j] - T0[a, j]
            o.check(close(stat_part * IN, stat_part2 * (IN + 1), scale * (IN + 1)), "not_inverse_in_input_sigma",
                    "asm %d term %d: statistical part %.12g at input sigma %d, %.12g at %d" % (a, j, stat_part, IN, stat_part2, IN + 1))
            if OUT > 0 and stat_part > 1e-6 * scale:
                o.check(Tp[a, j] > T[a, j], "not_increasing_in_output_sigma", "asm %d term %d" % (a, j))
            if j > 0:
                zj = dT[a, j] * float(np.prod(D[a, :, j]))
                o.check(T[a, j] - T[a, j - 1] >= zj - TOL * scale, "sequence_not_cumulative",
                        "asm %d: term %d adds %.12g, its own zero-sigma rise is %.12g" % (a, j, T[a, j] - T[a, j - 1], zj))
    o.metrics["rel_diff_reference"] = worst
    nonunit = bool(np.any(D != 1.0) or np.any(S != 1.0))
    o.classes.update({"n_terms": nt, "n_asm": na, "n_direct": D.shape[1], "n_stat": S.shape[1], "OUT": OUT, "IN": IN,
                      "all_ones": not nonunit})
    o.nontrivial = nonunit and OUT > 0
    return o


@st.composite
def direct_specs(draw, q):
    na = draw(st.integers(1, 6))
    nt = draw(st.integers(1, 6))
    nd = draw(st.integers(0, 6))
    ns = draw(st.integers(0, 6))

    def factor():
        return draw(st.sampled_from([1.0, 1.0, 1.0, 1.02, 1.5]) | gen.fl(1.0, 3.0).map(gen.r6))
    return {"T_in": gen.r6(draw(gen.fl(300.0, 900.0))),
            "dT": [[gen.r6(draw(st.sampled_from([0.0, 1.0]) | gen.logfl(1e-3, 500.0))) for _ in range(nt)] for _ in range(na)],
            "direct": [[[factor() for _ in range(nt)] for _ in range(nd)] for _ in range(na)],
            "stat": [[[factor() for _ in range(nt)] for _ in range(ns)] for _ in range(na)],
            "IN": draw(st.integers(1, 4)), "OUT": draw(st.integers(0, 4))}


# ------------------------------------------------------------------------------------------------
EXPRS = ["1 + {a} / dT", "1 + {a} * dT / 1000", "1.0 + 0.0 * dT", "1 + {a} * np.sqrt(dT) / 100",
         "1 + (3 / (dT * 5 / 9)) * np.sqrt(0.002304 * (dT * 5 / 9)**2 - 0.384 * (dT * 5 / 9) + 121)"]


def table_text(tab):
    lines = [",".join(HEADER[:2 + tab["ncols"]])]
    for name, typ, vals in tab["rows"]:
        cells = [(repr(v) if isinstance(v, float) else str(v)) for v in vals]
        lines.append(",".join([name, typ] + cells))
    return "\n".join(lines) + "\n"


def parse_builtin(name):
    """Own reader of a built-in table -> same structure as the generated ones (cells float or expression text)."""
    import dassh
    path = os.path.join(os.path.dirname(dassh.__file__), "data", "hcf_%s.csv" % name)
    txt = open(path, encoding="utf-8-sig").read().splitlines()
    rows = []
    for line in txt[1:]:
        c = line.split(",")
        vals = []
        for v in c[2:]:
            try:
                vals.append(float(v))
            except ValueError:
                vals.append(v)
        rows.append((c[0], c[1], vals))
    return {"ncols": len(txt[0].split(",")) - 2, "rows": rows}


class Undefined(Exception):
    pass


def eval_cell(v, dT):
    if isinstance(v, (int, float)):
        return float(v)
    if dT < 0:
        raise Undefined()
    if dT == 0:
        # the factor multiplies a zero rise: any finite value gives the same temperatures (DASSH documents that it
        # replaces infinite factors); the result must be finite all the same
        return 1.0
    return float(eval(v, {"np": np, "dT": float(dT)}))


def ref_from_table(T_in, dts, tab, loc, IN, OUT):
    cm = COLMAP[loc]
    direct, stat = [], []
    for name, typ, vals in tab["rows"]:
        row = [eval_cell(vals[cm[j]], dts[j]) for j in range(len(cm))]
        (direct if typ.lower() == "direct" else stat).append(row)
    return ref_temps(T_in, dts, direct, stat, IN, OUT)


def fake_reactor(spec, d):
    """Recorded peak state of a sweep (what hotspot.analyze reads): assemblies with id, name and _peak."""
    asms = []
    for a in spec["asms"]:
        pk = {"cool": (a["cool"], 0.5, 0)}
        if a.get("rows"):
            pk["pin"] = {loc: (row[3 + NTERMS[loc] - 1], row[1], list(row)) for loc, row in a["rows"].items()}
        asms.append(types.SimpleNamespace(id=a["id"], name=a["name"], _peak=pk))
    hs = {}
    for tname, locs in spec["hotspot"].items():
        hs[tname] = {}
        for loc, h in locs.items():
            if "builtin" in h:
                import dassh
                p = os.path.join(os.path.dirname(dassh.__file__), "data", "hcf_%s.csv" % h["builtin"])
            else:
                p = os.path.join(d, "hcf_%s_%s.csv" % (tname, loc))
                with open(p, "w") as f:
                    f.write(table_text(h["table"]))
            hs[tname][loc] = {"input_sigma": h["IN"], "output_sigma": h["OUT"], "subfactors": p}
    return types.SimpleNamespace(assemblies=asms, inlet_temp=spec["T_in"], _options={"hotspot": hs})


def rises(a, loc, T_in):
    if loc == "coolant":
        return [a["cool"] - T_in]
    row = a["rows"][loc]
    t = [T_in] + list(row[3:3 + NTERMS[loc]])
    return [t[i + 1] - t[i] for i in range(len(t) - 1)]


def check_analysis(o, spec, res, tag=""):
    """res = hotspot.analyze output for the recorded state in spec; compares with the reference, assembly by assembly."""
    T_in = spec["T_in"]
    if res is None:
        o.fail("no_result" + tag, "analyze returned None although hot-spot calculations were requested")
        return
    temps, ids = res
    worst = 0.0
    for loc in LOCS:
        want = sorted(a["id"] for a in spec["asms"] if loc in spec["hotspot"].get(a["name"], {}))
        if not want:
            o.check(loc not in temps, "unrequested_location_reported" + tag, loc)
            continue
        if loc not in temps:
            o.fail("location_missing" + tag, "%s requested for assemblies %s" % (loc, want))
            continue
        o.check(list(ids[loc]) == want, "assembly_ids" + tag, "%s: reported for %s, requested for %s" % (loc, list(ids[loc]), want))
        if list(ids[loc]) != want:
            continue
        arr = np.asarray(temps[loc])
        o.check(arr.shape == (len(want), NTERMS[loc]), "result_shape" + tag, "%s: %s" % (loc, arr.shape))
        if arr.shape != (len(want), NTERMS[loc]):
            continue
        for k, aid in enumerate(want):
            a = [x for x in spec["asms"] if x["id"] == aid][0]
            h = spec["hotspot"][a["name"]][loc]
            tab = parse_builtin(h["builtin"]) if "builtin" in h else h["table"]
            dts = rises(a, loc, T_in)
            scale = T_in + 10 * sum(abs(x) for x in dts)
            try:
                ref = ref_from_table(T_in, dts, tab, loc, h["IN"], h["OUT"])
            except Undefined:
                o.classes["expression_at_zero_rise"] = True
                continue
            nominal = [T_in + math.fsum(dts[:j + 1]) for j in range(len(dts))]
            ones = all(isinstance(v, float) and v == 1.0 for _, _, vals in tab["rows"] for v in vals)
            cm = COLMAP[loc]
            ge_one = all(eval_cell(vals[cm[j]], dts[j]) >= 1.0 for _, _, vals in tab["rows"] for j in range(len(cm)))
            scale = max(scale, max(abs(x) for x in ref))     # (expressions such as 1 + a/dT are huge at tiny rises)
            for j in range(NTERMS[loc]):
                worst = max(worst, abs(arr[k, j] - ref[j]) / scale)
                o.check(close(arr[k, j], ref[j], scale), "differs_from_reference" + tag,
                        "%s asm id %d (%s) term %d: %.12g, reference %.12g" % (loc, aid, a["name"], j, arr[k, j], ref[j]))
                if ones:
                    o.check(close(arr[k, j], nominal[j], scale), "unity_not_nominal" + tag,
                            "%s asm id %d term %d: %.12g, nominal %.12g" % (loc, aid, j, arr[k, j], nominal[j]))
                if ge_one:
                    o.check(arr[k, j] >= nominal[j] - TOL * scale, "below_nominal" + tag,
                            "%s asm id %d term %d: %.12g below nominal %.12g" % (loc, aid, j, arr[k, j], nominal[j]))
                if j > 0 and ge_one:
                    o.check(arr[k, j] >= arr[k, j - 1] - TOL * scale, "sequence_not_cumulative" + tag,
                            "%s asm id %d: term %d %.12g < term %d %.12g" % (loc, aid, j, arr[k, j], j - 1, arr[k, j - 1]))
    o.metrics["rel_diff_reference"] = max(o.metrics.get("rel_diff_reference", 0.0), worst)


def run_tables(spec):
    from dassh import hotspot
    o = Outcome()
    d = tempfile.mkdtemp(prefix="c19_")
    try:
        r = fake_reactor(spec, d)
        try:
            res = drive.guarded("analyze", hotspot.analyze, r)
        except drive.Crashed as e:
            o.fail("cannot_evaluate:%s@%s" % (e.exc_type, e.where), str(e)[:300])
            return o
        check_analysis(o, spec, res)
        # output sigma + 1 everywhere: nothing decreases
        if res is not None and not o.violations:
            spec2 = copy.deepcopy(spec)
            for locs in spec2["hotspot"].values():
                for h in locs.values():
                    h["OUT"] += 1
            r2 = fake_reactor(spec2, d)
            try:
                res2 = drive.guarded("analyze", hotspot.analyze, r2)
                for loc in res[0]:
                    o.check(bool(np.all(np.asarray(res2[0][loc]) >= np.asarray(res[0][loc]) - 1e-9)), "not_monotone_in_output_sigma", loc)
            except drive.Crashed as e:
                o.fail("cannot_evaluate:%s@%s" % (e.exc_type, e.where), str(e)[:300])
    finally:
        shutil.rmtree(d, ignore_errors=True)
    nloc = set(l for locs in spec["hotspot"].values() for l in locs)
    has_expr = any(isinstance(v, str) for locs in spec["hotspot"].values() for h in locs.values() if "table" in h
                   for _, _, vals in h["table"]["rows"] for v in vals)
    builtin = any("builtin" in h for locs in spec["hotspot"].values() for h in locs.values())
    nonunit = builtin or any(v != 1.0 for locs in spec["hotspot"].values() for h in locs.values() if "table" in h
                             for _, _, vals in h["table"]["rows"] for v in vals)
    o.classes.update({"n_types": len(spec["hotspot"]), "n_asm": len(spec["asms"]), "locations": len(nloc),
                      "expressions": has_expr, "builtin": builtin, "all_ones": not nonunit})
    for l in nloc:
        o.classes["loc_" + l] = True
    o.nontrivial = nonunit and any(h["OUT"] > 0 for locs in spec["hotspot"].values() for h in locs.values())
    return o


@st.composite
def table(draw, loc, ones=False):
    ncols = draw(st.integers(COLS_NEEDED[loc] - 2, 5))
    nrows = draw(st.integers(1, 6))
    rows = []
    names = ["Power level", "Flow maldistribution", "Cladding thickness", "Fuel conductivity", "Wire wrap", "Pellet-clad eccentricity",
             "Coolant properties", "Physics modelling", "Heating indirect", "Flux statistical"]
    for i in range(nrows):
        typ = draw(st.sampled_from(["Direct", "Statistical", "direct", "statistical", "Statistical"]))
        vals = []
        for c in range(ncols):
            k = draw(st.integers(0, 9))
            if ones or k < 4:
                vals.append(1.0)
            elif k < 8:
                vals.append(gen.r6(draw(gen.fl(1.0, 2.0))))
            else:
                vals.append(draw(st.sampled_from(EXPRS)).format(a=gen.r6(draw(gen.fl(0.1, 20.0)))))
        nm = draw(st.sampled_from(names))
        rows.append((nm if nm.endswith("ct") or nm.endswith("al") else "%s %d" % (nm, i), typ, vals))
    return {"ncols": ncols, "rows": rows}


@st.composite
def recorded_state(draw, q):
    ntypes = draw(st.integers(1, 3))
    tnames = ["fuel", "blanket", "control"][:ntypes]
    T_in = gen.r6(draw(gen.fl(400.0, 800.0)))
    n = draw(st.integers(ntypes, 7))
    order = [tnames[i] if i < ntypes else draw(st.sampled_from(tnames)) for i in range(n)]
    order = draw(st.permutations(order))
    asms = []
    for i, tn in enumerate(order):
        a = {"id": i, "name": tn, "cool": gen.r6(T_in + draw(gen.logfl(1.0, 300.0)))}
        rows = {}
        for loc in LOCS[1:]:
            t = T_in + draw(gen.logfl(1.0, 300.0))
            prof = []
            unpowered = draw(st.integers(0, 7)) == 0          # an unpowered bundle: film, clad, gap and fuel rises exactly zero
            for _ in range(6):
                prof.append(gen.r6(t))
                t += 0.0 if unpowered else draw(gen.logfl(0.01, 400.0))
            rows[loc] = [0.0, gen.r6(draw(gen.fl(0.0, 1.0))), float(draw(st.integers(0, 60)))] + prof
        a["rows"] = rows
        asms.append(a)
    hotspot = {}
    all_ones = draw(st.integers(0, 5)) == 0
    for tn in tnames:
        if hotspot and draw(st.integers(0, 3)) == 0:
            continue
        locs = draw(st.lists(st.sampled_from(LOCS), min_size=1, max_size=4, unique=True))
        hotspot[tn] = {}
        for loc in locs:
            h = {"IN": draw(st.integers(1, 4)), "OUT": draw(st.integers(0, 4))}
            fits = [b for b, nc in BUILTINS.items() if nc >= COLS_NEEDED[loc]]
            if not all_ones and fits and draw(st.integers(0, 3)) == 0:
                h["builtin"] = draw(st.sampled_from(fits))
            else:
                h["table"] = draw(table(loc, ones=all_ones))
            hotspot[tn][loc] = h
    return {"T_in": T_in, "asms": asms, "hotspot": hotspot}


# ------------------------------------------------------------------------------------------------
def run_swept(spec):
    """Generated core with pin models and Hotspot sections: sweep, analyze, compare with the reference applied to the
    recorded peaks (whose correctness is C15's subject)."""
    from dassh import hotspot
    o = Outcome()
    hs_spec = spec["_hotspot"]
    sp = {k: v for k, v in spec.items() if k != "_hotspot"}
    sp["extra_files"] = {}
    for tn, locs in hs_spec.items():
        sec = {}
        for loc, h in locs.items():
            if "builtin" in h:
                sub = h["builtin"]
            else:
                sub = "hcf_%s_%s.csv" % (tn, loc)
                sp["extra_files"][sub] = table_text(h["table"])
            sec["hs_" + loc] = {"temperature": loc, "input_sigma": h["IN"], "output_sigma": h["OUT"], "subfactors": sub}
        sp["assemblies"][tn]["Hotspot"] = sec
    with drive.Case(sp) as c:
        r = c.setup(write_output=False)
        drive.sweep(r)
        try:
            res = drive.guarded("analyze", hotspot.analyze, r)
        except drive.Crashed as e:
            o.fail("cannot_evaluate:%s@%s" % (e.exc_type, e.where), str(e)[:300])
            return o
        state = {"T_in": float(r.inlet_temp), "asms": [], "hotspot": {}}
        for a in r.assemblies:
            st_ = {"id": a.id, "name": a.name, "cool": float(a._peak["cool"][0])}
            if "pin" in a._peak:
                st_["rows"] = {loc: [float(x) for x in a._peak["pin"][loc][2]] for loc in LOCS[1:]}
                for loc in LOCS[1:]:
                    # the profile stored for a location ends, at that location, in the nominal peak itself
                    o.check(st_["rows"][loc][3 + NTERMS[loc] - 1] == a._peak["pin"][loc][0], "profile_is_not_at_the_peak", loc)
            state["asms"].append(st_)
        for tn, locs in hs_spec.items():
            has_pin = any(("FuelModel" in sp["assemblies"][tn]) or ("PinModel" in sp["assemblies"][tn]) for _ in [0])
            keep = {loc: h for loc, h in locs.items() if loc == "coolant" or has_pin}
            if keep and any(a.name == tn for a in r.assemblies):
                state["hotspot"][tn] = keep
        if state["hotspot"]:
            check_analysis(o, state, res)
            # all subfactors one: the last term is the reported nominal peak
            if res is not None:
                for loc in res[0]:
                    for k, aid in enumerate(res[1][loc]):
                        a = r.assemblies[[x.id for x in r.assemblies].index(aid)]
                        h = state["hotspot"][a.name][loc]
                        if "table" in h and all(v == 1.0 for _, _, vals in h["table"]["rows"] for v in vals):
                            nominal = a._peak["cool"][0] if loc == "coolant" else a._peak["pin"][loc][0]
                            o.check(abs(res[0][loc][k][-1] - nominal) <= 1e-9 * nominal, "unity_not_nominal_peak",
                                    "%s asm %d: %.10f vs reported nominal peak %.10f" % (loc, aid, res[0][loc][k][-1], nominal))
        else:
            o.check(res is None or not res[0], "result_without_request")
        o.classes.update({"n_asm": len(r.assemblies), "requested": sum(len(v) for v in state["hotspot"].values()),
                          "coolant_without_pin_model": any("coolant" in locs and not ("FuelModel" in sp["assemblies"][tn] or "PinModel" in sp["assemblies"][tn])
                                                           for tn, locs in hs_spec.items())})
        o.nontrivial = bool(state["hotspot"]) and res is not None
    return o


@st.composite
def swept_specs(draw, q):
    spec = draw(gen.core_spec(core_rings=(1, 2), n_types=(1, 2), rings=(2, 3), ducts=(1, 2), gap_models=("flow", "none", "no_flow"),
                              regimes=("tra", "tur"), n_steps=(6, 14), lowfi=False, regions=False, max_cells=2, byp_frac=(0.03, 0.3)))
    hs = {}
    for name in sorted(spec["assemblies"]):
        k = draw(st.integers(0, 5))
        if k <= 2:
            gen.attach_pin_model(spec, name, draw(gen.fuel_model()), fuel=True)
        elif k <= 4:
            pm, mats = draw(gen.pin_model())
            gen.attach_pin_model(spec, name, pm, mats, fuel=False)
        locs = draw(st.lists(st.sampled_from(LOCS), min_size=0 if hs else 1, max_size=3, unique=True))
        if k == 5:
            locs = [l for l in locs if l == "coolant"] or (["coolant"] if draw(st.booleans()) else [])
        if not locs:
            continue
        ones = draw(st.integers(0, 3)) == 0
        hs[name] = {}
        for loc in locs:
            h = {"IN": draw(st.integers(1, 4)), "OUT": draw(st.integers(0, 4))}
            fits = [b for b, nc in BUILTINS.items() if nc >= COLS_NEEDED[loc]]
            if not ones and fits and draw(st.integers(0, 3)) == 0:
                h["builtin"] = draw(st.sampled_from(fits))
            else:
                h["table"] = draw(table(loc, ones=ones))
            hs[name][loc] = h
    spec["_hotspot"] = hs
    return spec


def parts(tier):
    q = tier == "quick"
    return [
        Part("direct_calls", run_direct, strategy=direct_specs(q), examples=800 if q else 40000, timeout=30),
        Part("tables", run_tables, strategy=recorded_state(q), examples=600 if q else 30000, timeout=30),
        Part("swept", run_swept, strategy=swept_specs(q), examples=64 if q else 1500, timeout=120),
    ]

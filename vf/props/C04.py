"""C04 - the selected axial step keeps the explicit march positive."""
import copy

import numpy as np
from hypothesis import strategies as st

from .. import drive, gen, observe
from ..runner import Outcome, Part

ID = "C04"
TITLE = "The selected axial step keeps the explicit march positive"
TECHNIQUE = "property-based testing (Hypothesis): linear probing of the real composed step operator at the reactor-chosen dz (unit perturbations in, operator out), for single assemblies (with user step requests above and below the limit) and for every assembly of generated cores (twins), plus maximum-principle checks on generated sweeps"
RULE = ("region_operator: generated single assemblies (constant-property coolant and duct so the step is linear), "
        "the composed region.calculate() step is probed column by column at the step the Reactor chose, for the "
        "first region and every region activated later; gap_operator: Core.calculate_gap_temperatures probed the "
        "same way for flow / no_flow / duct_average on generated cores; maximum_principle: T-dependent coolants, "
        "zero-power relaxation of a generated non-uniform field and non-negative-power sweeps.  Non-trivial: the "
        "probed operator's smallest self-weight is < 0.9 (the step is within a factor 10 of the limit) or, for "
        "sweeps, >= 20 steps were run; distinct = spec hash")
ASSUMPTIONS = ["operator probes use constant-property coolant and duct materials (with T-dependent k the conv_approx "
               "branch is non-linear at 1e-8, which is not a violation)",
               "unit perturbations are added to the inlet temperature (materials reject T <= 0)",
               "the composed step (duct solve from previous-level temperatures, then coolant update) is the object "
               "probed, never the coolant update alone"]
LEVEL_NOTE = ("weights >= -1e-10 and row sums 1 +- 1e-9 on every probed operator; sweeps: no new extremum beyond 1e-9 K")

NEG = -1e-10


class Probe(object):
    """Linear probe of region.calculate at fixed dz."""

    def __init__(self, reg, dz, t_gap, h_gap, adiabatic):
        self.reg, self.dz, self.t_gap, self.h_gap, self.ad = reg, dz, np.array(t_gap, float), h_gap, adiabatic
        self.saved = copy.deepcopy(reg.temp)
        self.ebal = copy.deepcopy(reg.ebal)
        self.pd = copy.deepcopy(reg._pressure_drop)
        self.n_int = reg.temp["coolant_int"].size
        self.n_byp = reg.temp["coolant_byp"].size if "coolant_byp" in reg.temp else 0
        self.n_gap = 0 if adiabatic else self.t_gap.size
        # the six-node model advances the coolant before its wall: the previous-level wall temperature is an
        # input of the step (one input per wall cell, applied to surface and mid-wall value alike)
        self.n_wall = reg.temp["duct_mw"].shape[1] if getattr(reg, "model", None) == "6node" else 0
        self.n_in = self.n_int + self.n_byp + self.n_gap + self.n_wall

    def restore(self):
        for k, v in self.saved.items():
            self.reg.temp[k] = v.copy()
        self.reg.ebal = copy.deepcopy(self.ebal)

    def out(self):
        v = [self.reg.temp["coolant_int"].ravel().copy()]
        if self.n_byp:
            v.append(self.reg.temp["coolant_byp"].ravel().copy())
        return np.concatenate(v)

    def apply(self, delta):
        """delta: perturbation of (int, byp, gap) inputs; returns new (int, byp)."""
        self.restore()
        reg = self.reg
        reg.temp["coolant_int"] = reg.temp["coolant_int"] + delta[:self.n_int].reshape(reg.temp["coolant_int"].shape)
        if self.n_byp:
            reg.temp["coolant_byp"] = reg.temp["coolant_byp"] + \
                delta[self.n_int:self.n_int + self.n_byp].reshape(reg.temp["coolant_byp"].shape)
        tg = self.t_gap.copy()
        if self.n_gap:
            tg = tg + delta[self.n_int + self.n_byp:self.n_int + self.n_byp + self.n_gap]
        if self.n_wall:
            dw = delta[self.n_int + self.n_byp + self.n_gap:]
            reg.temp["duct_surf"] = reg.temp["duct_surf"] + dw[None, None, :]
            reg.temp["duct_mw"] = reg.temp["duct_mw"] + dw[None, :]
        q = {"pins": None, "cool": None, "duct": None, "refl": 0.0}
        drive.guarded("probe", reg.calculate, self.dz, q, tg, self.h_gap, self.ad, False)
        res = self.out()
        return res

    def matrix(self):
        base = self.apply(np.zeros(self.n_in))
        M = np.zeros((base.size, self.n_in))
        for j in range(self.n_in):
            d = np.zeros(self.n_in)
            d[j] = 1.0
            M[:, j] = self.apply(d) - base
        allone = self.apply(np.ones(self.n_in)) - base
        self.restore()
        return M, base, allone


def gap_inputs(r, i):
    """(t_gap, h_gap) on the duct mesh of assembly i exactly as Reactor._calculate_asm_temperatures builds them."""
    import dassh
    asm = r.assemblies[i]
    if r.core.model is None:
        n = asm.duct_outer_surf_temp.shape[0]
        return np.ones(n), np.ones(n)
    h = dassh.mesh_functions.map_across_gap(r.core.adjacent_coolant_gap_htc(i), asm.active_region._map["gap2duct"])
    t = dassh.mesh_functions.map_across_gap(r.core.adjacent_coolant_gap_temp(i) * r.core.adjacent_coolant_gap_htc(i),
                                            asm.active_region._map["gap2duct"])
    return t / h, h


def check_operator(o, M, allone, tag, n_self):
    """M: outputs x inputs.  The first n_self inputs are the outputs' own previous values."""
    mn = float(M.min())
    rs = M.sum(axis=1)
    o.metric("min_weight_" + tag, -mn)
    o.metric("rowsum_err_" + tag, float(np.max(np.abs(rs - 1.0))))
    o.metric("rowsum_err_" + tag, float(np.max(np.abs(allone - 1.0))))
    diag = np.array([M[k, k] for k in range(min(n_self, M.shape[0]))])
    if not o.check(mn >= NEG, "negative_weight_" + tag, "min weight %.4e at %s (min self-weight %.4e)"
                   % (mn, np.unravel_index(int(np.argmin(M)), M.shape), float(diag.min()))):
        pass
    o.check(np.max(np.abs(rs - 1.0)) <= 1e-9 and np.max(np.abs(allone - 1.0)) <= 1e-9, "weights_sum_to_one_" + tag,
            "max |row sum - 1| = %.3e" % float(np.max(np.abs(rs - 1.0))))
    return float(diag.min())


def _asm_classes(o, spec, r, name="A"):
    m = spec["_meta"][name]
    a = spec["assemblies"][name]
    o.classes["n_ring"] = m["n_ring"]
    o.classes["n_duct"] = m["n_duct"]
    byp = "none"
    if m["n_duct"] > 1:
        byp = "stagnant" if a.get("bypass_gap_flow_fraction", 0.05) == 0.0 else "flowing"
    o.classes["bypass"] = byp
    o.classes["gap"] = spec["core"]["gap_model"]
    Re = spec["_meta"]["Re"]
    o.classes["regime"] = "low" if Re < 150 else ("lam" if Re < 900 else ("tra" if Re < 1.5e4 else "tur"))
    o.classes["limit_sc"] = str(r.min_dz["sc"][int(np.argmin(r.min_dz["dz"]))])
    o.classes["lowfi"] = bool(a.get("use_low_fidelity_model"))
    o.classes["conv_approx"] = any(getattr(reg, "_conv_approx", False) for reg in r.assemblies[0].region)
    return byp


def run_region_operator(spec):
    o = Outcome()
    with drive.Case(spec) as c:
        r = c.setup()
        _asm_classes(o, spec, r)
        asm = r.assemblies[0]
        o.check(float(r.req_dz) <= min(r.min_dz["dz"]) * (1 + 1e-12), "req_dz_exceeds_limit",
                "%r > %r" % (r.req_dz, min(r.min_dz["dz"])))
        o.check(float(np.max(r.dz)) <= min(r.min_dz["dz"]) * (1 + 1e-9), "step_exceeds_limit",
                "%r > %r" % (float(np.max(r.dz)), min(r.min_dz["dz"])))
        user = c.spec["setup"].get("axial_mesh_size")
        o.classes["user_step"] = "none" if user is None else ("above_limit" if user > min(r.min_dz["dz"]) else "below_limit")
        r.axial_step0()
        probed = set()
        min_self = [1.0]

        def probe_now(tag):
            reg = asm.active_region
            if id(reg) in probed:
                return
            probed.add(id(reg))
            tg, hg = gap_inputs(r, 0)
            # the step the sweep will actually take in this region (largest of the remaining ones)
            dz = float(np.max(r.dz))
            p = Probe(reg, dz, tg, hg, r._is_adiabatic)
            M, base, allone = p.matrix()
            kind = "rodded" if reg.is_rodded else getattr(reg, "model", "lowfi")
            ms = check_operator(o, M, allone, kind, p.n_int + p.n_byp)
            min_self[0] = min(min_self[0], ms)
            # zero perturbation at a uniform state leaves everything exactly unchanged
            o.classes["probed_" + kind] = True

        probe_now("first")

        def after(i, z, dz, regs):
            if asm.active_region is not regs[0]:
                probe_now("region%d" % asm.active_region_idx)
        drive.sweep(r, None, after)
        o.metric("min_self_weight_margin", 1.0 - min_self[0])
        o.classes["near_limit"] = min_self[0] < 0.5
        o.nontrivial = min_self[0] < 0.9
    return o


def run_core_region_operator(spec):
    """Every assembly of a core (identical twins included) is probed at the step the core really takes."""
    o = Outcome()
    with drive.Case(spec) as c:
        r = c.setup()
        o.classes["gap"] = spec["core"]["gap_model"]
        o.classes["n_asm"] = len(r.assemblies)
        o.classes["twins"] = sum(1 for p_ in spec["_meta"]["pos"] if "twin_of" in p_)
        o.classes["conv_approx_regions"] = sum(1 for a in r.assemblies for g in a.region if getattr(g, "_conv_approx", False))
        lim = min(r.min_dz["dz"])
        o.check(float(np.max(r.dz)) <= lim * (1 + 1e-9), "step_exceeds_limit", "%r > %r" % (float(np.max(r.dz)), lim))
        o.classes["limit_sc"] = str(r.min_dz["sc"][int(np.argmin(r.min_dz["dz"]))])
        r.axial_step0()
        dz = float(np.max(r.dz))
        min_self = 1.0
        for i, asm in enumerate(r.assemblies):
            reg = asm.active_region
            tg, hg = gap_inputs(r, i)
            p = Probe(reg, dz, tg, hg, r._is_adiabatic)
            M, base, allone = p.matrix()
            kind = "rodded" if reg.is_rodded else getattr(reg, "model", "lowfi")
            min_self = min(min_self, check_operator(o, M, allone, kind, p.n_int + p.n_byp))
        o.metric("min_self_weight_margin", 1.0 - min_self)
        o.nontrivial = len(r.assemblies) >= 2 and min_self < 0.9
    return o


def run_gap_operator(spec):
    o = Outcome()
    with drive.Case(spec) as c:
        r = c.setup()
        core = r.core
        o.classes["gap"] = spec["core"]["gap_model"]
        o.classes["n_asm"] = len(r.assemblies)
        lim = int(np.argmin(r.min_dz["dz"]))
        o.classes["gap_limits"] = (lim == len(r.assemblies) and len(r.min_dz["dz"]) > len(r.assemblies))
        r.axial_step0()
        dz = float(np.max(r.dz))
        T0 = float(spec["core"]["coolant_inlet_temp"])
        ngap = core.n_sc
        mask = core._asm_sc_adj > 0
        nduct = int(mask.sum())
        where = np.argwhere(mask)
        saved_T = core.coolant_gap_temp.copy()
        saved_e = copy.deepcopy(core.ebal)

        def apply(dg, dd):
            core.coolant_gap_temp = saved_T + dg
            td = np.full(core._asm_sc_adj.shape, T0)
            for k, (a, b) in enumerate(where):
                td[a, b] += dd[k]
            drive.guarded("probe", core.calculate_gap_temperatures, dz, td)
            out = core.coolant_gap_temp.copy()
            core.coolant_gap_temp = saved_T.copy()
            core.ebal = copy.deepcopy(saved_e)
            return out
        base = apply(np.zeros(ngap), np.zeros(nduct))
        o.check(float(np.max(np.abs(base - T0))) <= 1e-9, "uniform_state_changes", "%.3e" % float(np.max(np.abs(base - T0))))
        M = np.zeros((ngap, ngap + nduct))
        for j in range(ngap):
            d = np.zeros(ngap)
            d[j] = 1.0
            M[:, j] = apply(d, np.zeros(nduct)) - base
        for j in range(nduct):
            d = np.zeros(nduct)
            d[j] = 1.0
            M[:, ngap + j] = apply(np.zeros(ngap), d) - base
        allone = apply(np.ones(ngap), np.ones(nduct)) - base
        ms = check_operator(o, M, allone, "gap_" + str(spec["core"]["gap_model"]), ngap)
        if spec["core"]["gap_model"] in ("no_flow", "duct_average"):
            # convex combination of adjacent duct walls and neighbouring gap cells only
            adj = core._sc_adj
            bad = 0
            for i in range(ngap):
                allowed = set(int(x) - 1 for x in adj[i] if x > 0)
                allowed |= set(ngap + k for k, (a, b) in enumerate(where) if core._asm_sc_adj[a, b] - 1 == i)
                nz = set(np.nonzero(np.abs(M[i]) > 1e-13)[0].tolist())
                if not nz <= allowed:
                    bad += 1
            o.check(bad == 0, "gap_weight_outside_stencil", "%d rows" % bad)
        o.metric("min_self_weight_margin", 1.0 - ms)
        o.nontrivial = (ms < 0.9) or spec["core"]["gap_model"] in ("no_flow", "duct_average")
    return o


def run_maximum_principle(spec):
    """Sweep-level consequences with any coolant: zero power -> stays at inlet; power >= 0 -> nothing below the
    inlet; zero-power relaxation of a non-uniform field creates no new extremum."""
    o = Outcome()
    mode = spec["_mode"]
    with drive.Case(spec) as c:
        r = c.setup()
        o.classes["mode"] = mode
        o.classes["gap"] = spec["core"]["gap_model"]
        o.classes["coolant"] = spec["core"]["coolant_material"]
        o.classes["n_asm"] = len(r.assemblies)
        T0 = float(spec["core"]["coolant_inlet_temp"])
        lo = [T0]
        hi = [T0]
        worst = [0.0]

        def all_temps(regs):
            v = []
            for reg in regs:
                v.append(reg.temp["coolant_int"].ravel())
                if "coolant_byp" in reg.temp:
                    v.append(reg.temp["coolant_byp"].ravel())
            if r.core.model is not None:
                v.append(r.core.coolant_gap_temp.ravel())
            return np.concatenate(v)

        def envelope_temps(regs):
            # the duct walls are part of the state the next level is computed from (the six-node model advances the
            # coolant with the walls of the previous level), so they belong to the envelope
            v = [all_temps(regs)]
            for reg in regs:
                for key in ("duct_mw", "duct_surf"):
                    if key in reg.temp:
                        v.append(np.asarray(reg.temp[key]).ravel())
            return np.concatenate(v)

        if mode == "relax":
            fld = spec["_field"]
            r.axial_step0()
            for k, a in enumerate(r.assemblies):
                reg = a.active_region
                n = reg.temp["coolant_int"].size
                reg.temp["coolant_int"][:] = T0 + fld["amp"] * (1 + np.sin(fld["phase"] + k + fld["freq"] * np.arange(n)))
                if "coolant_byp" in reg.temp:
                    reg.temp["coolant_byp"][:] = T0 + fld["amp"] * (1 + np.cos(fld["phase"] + 0.3 * k))
            if r.core.model is not None:
                n = r.core.coolant_gap_temp.size
                r.core.coolant_gap_temp[:] = T0 + fld["amp"] * (1 + np.sin(0.5 + fld["freq"] * np.arange(n)))
            t = envelope_temps([a.active_region for a in r.assemblies])
            lo[0], hi[0] = float(t.min()), float(t.max())

        steps = [0]
        fails = {}

        def after(i, z, dz, regs):
            steps[0] += 1
            t = envelope_temps(regs) if mode == "relax" else all_temps(regs)
            tmin, tmax = float(t.min()), float(t.max())
            if mode == "zero":
                d = max(abs(tmin - T0), abs(tmax - T0))
                worst[0] = max(worst[0], d)
                if d > 1e-9:
                    fails.setdefault("zero_power_drift", "step %d: %.3e K" % (i, d))
            elif mode == "power":
                worst[0] = max(worst[0], T0 - tmin)
                if tmin < T0 - 1e-9:
                    fails.setdefault("below_inlet", "step %d: min %.9f < inlet %.9f" % (i, tmin, T0))
            else:
                # duct walls are in between as well
                worst[0] = max(worst[0], lo[0] - tmin, tmax - hi[0])
                if tmin < lo[0] - 1e-9 or tmax > hi[0] + 1e-9:
                    fails.setdefault("new_extremum", "step %d: [%.9f, %.9f] leaves [%.9f, %.9f]"
                                     % (i, tmin, tmax, lo[0], hi[0]))
                # the envelope may only shrink: the next level is bounded by this one
                lo[0], hi[0] = tmin, tmax

        try:
            if mode == "relax":
                def run():
                    n = len(r.z)
                    for i in range(1, n):
                        regs = [a.active_region for a in r.assemblies]
                        r.axial_step(r.z[i], r.dz[i - 1], i)
                        after(i, r.z[i], r.dz[i - 1], regs)
                drive.guarded("sweep", run)
            else:
                drive.sweep(r, None, after)
        except drive.Rejected as e:
            # a march that ends in "temperature must be > 0" has oscillated below absolute zero
            if "temperature must be > 0" in str(e) and not fails:
                fails["blow_up_negative_temperature"] = str(e)[:200]
            elif not fails:
                raise
        for k, v in fails.items():
            o.fail(k, v)
        o.checks += steps[0]
        o.metric("worst_excursion_K_" + mode, worst[0])
        o.nontrivial = steps[0] >= 20
    return o


@st.composite
def mp_cases(draw):
    mode = draw(st.sampled_from(["zero", "power", "relax"]))
    gm = ("flow", "no_flow", "duct_average", "none")
    cool = draw(st.sampled_from(["const", "tdep"]))
    spec = draw(gen.core_spec(core_rings=(1, 2), rings=(2, 4), ducts=(1, 3), gap_models=gm,
                              coolant="const" if cool == "const" else ["sodium", "lead", "nak", "sodium_se2anl"],
                              regimes=("lam", "lam", "tra", "tur"), n_steps=(25, 80),
                              zero_power=(mode != "power"), duct_const=(cool == "const"), regions=True,
                              conv_approx=True, byp_frac=(0.02, 0.3)))
    spec["_mode"] = mode
    if mode == "relax":
        spec["_field"] = {"amp": gen.r6(draw(gen.fl(1.0, 100.0))), "phase": gen.r6(draw(gen.fl(0.0, 6.28))),
                          "freq": gen.r6(draw(gen.fl(0.05, 2.5)))}
    return spec


@st.composite
def lowfi_limited(draw):
    """Low-fidelity assemblies whose own criterion limits the step: no flowing-gap limit, low flow, small
    convection factor."""
    sp = draw(gen.single_assembly(rings=(2, 4), ducts=(1, 2), n_steps=(4, 8), regimes=("low", "lam"),
                                  gap_model=draw(st.sampled_from(["no_flow", "duct_average", "none"])),
                                  dT=(1.0, 5.0), conv_approx=True))
    a = sp["assemblies"]["A"]
    if draw(st.booleans()):
        a["use_low_fidelity_model"] = True
        a["low_fidelity_model"] = draw(st.sampled_from(["simple", "6node"]))
        a["convection_factor"] = draw(st.sampled_from([0.02, 0.05, 0.1, 0.3, 1.0, "calculate"]))
    else:
        r = {"model": draw(st.sampled_from(["simple", "6node"])), "vf_coolant": gen.r6(draw(gen.fl(0.15, 0.9))),
             "convection_factor": draw(st.sampled_from([0.02, 0.05, 0.1, 0.3, 1.0])),
             "z_lo_frac": 0.0, "z_hi_frac": 0.5}
        a["AxialRegion"] = {"lower": r}
    return sp


@st.composite
def with_step_request(draw, base):
    """user step requests above and below the stability limit (the length is n_steps x the limit): the operator is probed at
    the step the sweep really takes"""
    sp = draw(base)
    if draw(st.integers(0, 2)) == 0:
        sp["setup"]["axial_mesh_size_frac"] = gen.r6(draw(gen.logfl(0.01, 1.0)))
    return sp


def parts(tier):
    q = tier == "quick"
    return [
        Part("region_operator", run_region_operator,
             strategy=with_step_request(gen.single_assembly(rings=(2, 5) if q else (2, 7), ducts=(1, 3), n_steps=(4, 12),
                                                            conv_approx=True, regions=True, lowfi=True, dT=(1.0, 20.0),
                                                            regimes=("low", "lam", "tra", "tur"))),
             examples=96 if q else 3000),
        Part("lowfi_operator", run_region_operator, strategy=with_step_request(lowfi_limited()), examples=64 if q else 1500),
        Part("core_region_operator", run_core_region_operator,
             strategy=gen.core_spec(core_rings=(2, 2), n_types=(1, 2), rings=(2, 3), ducts=(1, 2),
                                    gap_models=("none", "no_flow", "duct_average", "flow"), n_steps=(3, 6),
                                    regimes=("low", "low", "lam", "tra"), dT=(1.0, 20.0), byp_frac=(0.05, 0.3), conv_approx=True,
                                    twins=True, lowfi=True),
             examples=96 if q else 1500, timeout=120),
        Part("gap_operator", run_gap_operator,
             strategy=gen.core_spec(core_rings=(1, 2) if q else (1, 3), rings=(2, 4), ducts=(1, 2),
                                    gap_models=("flow", "flow", "no_flow", "duct_average"), n_steps=(3, 6),
                                    regimes=("lam", "tra", "tur"), dT=(1.0, 20.0), byp_frac=(0.02, 0.3)),
             examples=48 if q else 1200),
        Part("maximum_principle", run_maximum_principle, strategy=mp_cases(), examples=64 if q else 2000),
    ]

"""spec (plain JSON-able dict) -> DASSH input file + user-power CSV in a directory.

A spec is the *complete* description of a case; the shrunk counter-example written to
/verif/replays is a spec and `build` is the only thing needed to turn it back into files.

spec = {
  "setup":   {key: value, ..., "units": {...}, "dump": {...}, "tables": {name: {...}}},
  "materials": {name: {prop: [coeffs] | "from_file": text}},
  "power":   {"total_power": float|None, "scaling": float|None,
              "files": [ {asm_id(1-based str): asmpower}, ... ]}     # one per time point
  "core":    {...Core keys...},
  "assemblies": {name: {Assembly keys..., "AxialRegion": {...}, "SpacerGrid": {...},
                        "FuelModel": {...}, "PinModel": {...}, "Hotspot": {...}}},
  "assignment": [[name, ring, pos_lo, pos_hi, {"FLOWRATE": x}], ...],
  "orificing": {...} (optional),
  "extra_files": {relative name: text}
}

asmpower = {"zb": [0, ..., L]  (metres),
            "pins"|"duct"|"cool": {"n": items, "base": [[a0..ak] per cell],
                                   "amp": [amp_k], "freq": [f_k], "phase": [p_k]}}
item i (0-based), cell c, order k:  a_{c,i,k} = base[c][k] * (1 + amp[k] * sin(phase[k] + freq[k]*i))
which gives every item its own magnitude *and* axial shape from a handful of drawn numbers.
"""
import math
import os


def fmt(x):
    if isinstance(x, bool):
        return "True" if x else "False"
    if isinstance(x, float):
        return repr(x)
    if isinstance(x, (list, tuple)):
        s = ", ".join(fmt(v) for v in x)
        if len(x) == 1:
            s += ","
        return s
    return str(x)


def item_coeffs(comp, cell, item):
    """Polynomial coefficients (W/m) of one item in one axial power cell (either the explicit table
    comp["explicit"][cell][item] or the compact amplitude/phase form)."""
    if "explicit" in comp:
        return list(comp["explicit"][cell][item])
    base = comp["base"][cell]
    out = []
    for k, b in enumerate(base):
        amp = comp["amp"][k] if k < len(comp.get("amp", [])) else 0.0
        fr = comp["freq"][k] if k < len(comp.get("freq", [])) else 0.0
        ph = comp["phase"][k] if k < len(comp.get("phase", [])) else 0.0
        out.append(b * (1.0 + amp * math.sin(ph + fr * item)))
    return out


def power_rows(asm_id, ap):
    """CSV rows of one assembly."""
    rows = []
    zb = ap["zb"]
    for code, key in ((1, "pins"), (2, "duct"), (3, "cool")):
        comp = ap.get(key)
        if comp is None:
            continue
        for c in range(len(zb) - 1):
            for i in range(comp["n"]):
                co = item_coeffs(comp, c, i)
                rows.append([asm_id, code, zb[c], zb[c + 1], i + 1] + co)
    return rows


def power_csv(pfile):
    lines = []
    width = 0
    allrows = []
    for aid in sorted(pfile, key=lambda s: int(s)):
        allrows += power_rows(int(aid), pfile[aid])
    for r in allrows:
        width = max(width, len(r))
    for r in allrows:
        r = r + [0.0] * (width - len(r))
        lines.append(",".join(repr(float(v)) if not isinstance(v, int) else str(v) for v in r))
    return "\n".join(lines) + "\n"


def cell_integral(coeffs, dz):
    """Exact integral over a power cell of width dz of sum a_k zeta^k, zeta in [-1/2, 1/2]."""
    tot = 0.0
    for k, a in enumerate(coeffs):
        tot += a * (0.5 ** (k + 1) - (-0.5) ** (k + 1)) / (k + 1)
    return tot * dz


def asm_power_integral(ap, z_lo=None, z_hi=None):
    """Independent analytic integral (W) of an assembly's CSV polynomials: dict per component
    plus 'total'.  With z_lo/z_hi: only that axial window (exact partial-cell integration)."""
    zb = ap["zb"]
    out = {"pins": 0.0, "duct": 0.0, "cool": 0.0}
    for key in out:
        comp = ap.get(key)
        if comp is None:
            continue
        for c in range(len(zb) - 1):
            lo, hi = zb[c], zb[c + 1]
            a, b = lo, hi
            if z_lo is not None:
                a = max(a, z_lo)
            if z_hi is not None:
                b = min(b, z_hi)
            if b <= a:
                continue
            dzc = hi - lo
            za = (a - lo) / dzc - 0.5
            zb_ = (b - lo) / dzc - 0.5
            for i in range(comp["n"]):
                co = item_coeffs(comp, c, i)
                s = 0.0
                for k, ak in enumerate(co):
                    s += ak * (zb_ ** (k + 1) - za ** (k + 1)) / (k + 1)
                out[key] += s * dzc
    out["total"] = out["pins"] + out["duct"] + out["cool"]
    return out


def _section(lines, indent, name, level):
    lines.append(" " * indent + "[" * level + name + "]" * level)


_META_KEYS = {"zb_frac", "z_lo_frac", "z_hi_frac", "axial_positions_frac", "axial_plane_frac",
              "axial_mesh_size_frac", "gap_thickness_frac"}


def _kv(lines, indent, k, v):
    if v is None or k in _META_KEYS or k.startswith("_"):
        return
    lines.append(" " * indent + "%s = %s" % (k, fmt(v)))


def input_text(spec, power_names):
    L = []
    su = spec.get("setup", {})
    _section(L, 0, "Setup", 1)
    for k, v in su.items():
        if k in ("units", "dump", "tables"):
            continue
        _kv(L, 4, k, v)
    if su.get("dump"):
        _section(L, 4, "Dump", 2)
        for k, v in su["dump"].items():
            _kv(L, 8, k, v)
    if su.get("units"):
        _section(L, 4, "Units", 2)
        for k, v in su["units"].items():
            _kv(L, 8, k, v)
    if su.get("tables"):
        _section(L, 4, "AssemblyTables", 2)
        for name, t in su["tables"].items():
            _section(L, 8, name, 3)
            for k, v in t.items():
                _kv(L, 12, k, v)
    if spec.get("materials"):
        _section(L, 0, "Materials", 1)
        for name, m in spec["materials"].items():
            _section(L, 4, name, 2)
            for k, v in m.items():
                _kv(L, 8, k, v)
    _section(L, 0, "Power", 1)
    pw = spec.get("power", {})
    if power_names:
        L.append("    user_power = " + ", ".join(power_names))
    _kv(L, 4, "total_power", pw.get("total_power"))
    _kv(L, 4, "power_scaling_factor", pw.get("scaling"))
    if pw.get("ARC"):
        _section(L, 4, "ARC", 2)
        for k, v in pw["ARC"].items():
            _kv(L, 8, k, v)
    _section(L, 0, "Core", 1)
    for k, v in spec["core"].items():
        if k in ("n_steps",):
            continue
        _kv(L, 4, k, v)
    _section(L, 0, "Assembly", 1)
    for name, a in spec["assemblies"].items():
        _section(L, 4, name, 2)
        for k, v in a.items():
            if isinstance(v, dict):
                continue
            _kv(L, 8, k, v)
        for sub in ("AxialRegion", "Hotspot"):
            if a.get(sub):
                _section(L, 8, sub, 3)
                for rn, r in a[sub].items():
                    _section(L, 12, rn, 4)
                    for k, v in r.items():
                        _kv(L, 16, k, v)
        for sub in ("SpacerGrid", "FuelModel", "PinModel"):
            if a.get(sub):
                _section(L, 8, sub, 3)
                for k, v in a[sub].items():
                    _kv(L, 12, k, v)
    _section(L, 0, "Assignment", 1)
    _section(L, 4, "ByPosition", 2)
    for row in spec["assignment"]:
        name, ring, p1, p2, kw = row
        s = "%s = %d, %d, %d" % (name, ring, p1, p2)
        for k, v in kw.items():
            s += ", %s=%s" % (k, fmt(v))
        L.append(" " * 8 + s)
    if spec.get("orificing"):
        _section(L, 0, "Orificing", 1)
        for k, v in spec["orificing"].items():
            _kv(L, 4, k, v)
    return "\n".join(L) + "\n"


def write(spec, directory, name="input.txt"):
    """Write all files; returns path to the input file."""
    os.makedirs(directory, exist_ok=True)
    pnames = []
    for t, pf in enumerate(spec.get("power", {}).get("files", [])):
        pn = "power_%d.csv" % t
        with open(os.path.join(directory, pn), "w") as f:
            f.write(power_csv(pf))
        pnames.append(pn)
    for fn, txt in spec.get("extra_files", {}).items():
        p = os.path.join(directory, fn)
        os.makedirs(os.path.dirname(p), exist_ok=True)
        with open(p, "w") as f:
            f.write(txt)
    path = os.path.join(directory, name)
    with open(path, "w") as f:
        f.write(input_text(spec, pnames))
    return path


def explicit_component(comp, n_cells):
    """The compact component description expanded to an explicit per-cell, per-item coefficient table."""
    return {"n": comp["n"], "explicit": [[item_coeffs(comp, c, i) for i in range(comp["n"])] for c in range(n_cells)]}

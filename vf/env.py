"""Process environment: import paths, logging capture, SystemExit handling.

Everything that imports `dassh` goes through `setup()` first so that
 * the harness' own dependencies come from /verif/.deps,
 * `dassh` is imported from $VERIF_REPO (default /repo) -- the working tree, never a copy,
 * dassh's loggers are captured (LoggedClass.log('error') logs and then sys.exit(1)).
"""
import logging
import os
import sys

VERIF = os.path.dirname(os.path.dirname(os.path.abspath(__file__)))
REPO = os.environ.get("VERIF_REPO", "/repo")
GUARD = "DASSH_VERIF"

_done = False


class Capture(logging.Handler):
    def __init__(self):
        super().__init__(level=1)
        self.records = []

    def emit(self, record):
        try:
            msg = record.getMessage()
        except Exception:  # pragma: no cover
            msg = str(record.msg)
        self.records.append((record.levelno, record.name, msg))
        if len(self.records) > 2000:
            del self.records[:1000]

    def clear(self):
        self.records = []

    def errors(self):
        return [r for r in self.records if r[0] >= logging.ERROR]

    def warnings(self):
        return [r for r in self.records if r[0] == logging.WARNING]


CAPTURE = Capture()


def setup():
    global _done
    if _done:
        return
    deps = os.path.join(VERIF, ".deps")
    if os.path.isdir(deps) and deps not in sys.path:
        sys.path.insert(0, deps)
    if REPO not in sys.path:
        sys.path.insert(0, REPO)
    if VERIF not in sys.path:
        sys.path.insert(0, VERIF)
    os.environ.setdefault("MPLBACKEND", "Agg")
    os.environ.setdefault("OMP_NUM_THREADS", "1")
    os.environ.setdefault("OPENBLAS_NUM_THREADS", "1")
    os.environ[GUARD] = "1"
    lg = logging.getLogger("dassh")
    lg.setLevel(1)
    lg.propagate = False
    for h in list(lg.handlers):
        lg.removeHandler(h)
    lg.addHandler(CAPTURE)
    import warnings
    warnings.filterwarnings("ignore")
    import numpy as np
    np.seterr(all="ignore")
    import dassh  # noqa: F401
    got = os.path.dirname(os.path.dirname(os.path.abspath(dassh.__file__)))
    if os.path.realpath(got) != os.path.realpath(REPO):
        raise RuntimeError("dassh imported from %s, expected %s" % (got, REPO))
    _done = True


def innermost_dassh_frame(tb):
    """(file:function) of the innermost traceback frame inside the dassh package."""
    import traceback
    best = None
    for fs in traceback.extract_tb(tb):
        fn = fs.filename.replace("\\", "/")
        if "/dassh/" in fn and "/vf/" not in fn:
            best = "%s:%s" % (os.path.basename(fn), fs.name)
    return best or "harness"

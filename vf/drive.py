"""Drive the real solver from a spec: files -> DASSH_Input -> Reactor -> step-by-step sweep."""
import copy
import os
import shutil
import sys
import tempfile
import traceback

from . import build, env


class Rejected(Exception):
    """dassh terminated with SystemExit after logging an error (the documented rejection)."""

    def __init__(self, stage, messages):
        super().__init__("%s: %s" % (stage, "; ".join(m[2] for m in messages)[:500]))
        self.stage = stage
        self.messages = messages


class Crashed(Exception):
    """dassh raised something other than SystemExit."""

    def __init__(self, stage, exc, where, tb):
        super().__init__("%s: %s: %s @ %s" % (stage, type(exc).__name__, exc, where))
        self.stage = stage
        self.exc_type = type(exc).__name__
        self.exc_msg = str(exc)
        self.where = where
        self.tb = tb

    @property
    def signature(self):
        return "%s@%s" % (self.exc_type, self.where)


def guarded(stage, fn, *a, **k):
    """Run fn; translate SystemExit -> Rejected, other exceptions -> Crashed."""
    env.CAPTURE.clear()
    try:
        return fn(*a, **k)
    except SystemExit:
        raise Rejected(stage, list(env.CAPTURE.errors()) or [(40, "?", "SystemExit without message")])
    except (Rejected, Crashed):
        raise
    except KeyboardInterrupt:
        raise
    except BaseException as e:  # noqa
        if type(e).__name__ == "CaseTimeout":
            raise
        tb = sys.exc_info()[2]
        errs = list(env.CAPTURE.errors())
        if errs and isinstance(e, (ValueError, OSError)) and errs[-1][2].strip() and errs[-1][2].strip() in str(e):
            # dassh's other documented error style: log the message at ERROR level, then raise it
            r = Rejected(stage, errs)
            r.via_exception = type(e).__name__
            raise r
        raise Crashed(stage, e, env.innermost_dassh_frame(tb), traceback.format_exc()[-3000:])


class Case(object):
    """A spec materialised on disk.  Use as context manager; the directory is removed."""

    def __init__(self, spec, keep=False):
        env.setup()
        self.spec = copy.deepcopy(spec)
        self.keep = keep
        self.dir = tempfile.mkdtemp(prefix="vf_", dir=os.environ.get("VERIF_TMP"))
        self.path = None
        self.inp = None
        self.reactor = None

    def __enter__(self):
        return self

    def __exit__(self, *a):
        self.close()

    def close(self):
        if not self.keep and self.dir and os.path.isdir(self.dir):
            shutil.rmtree(self.dir, ignore_errors=True)

    # ------------------------------------------------------------------
    def write(self):
        self.path = build.write(self.spec, self.dir)
        return self.path

    def read(self, **kw):
        import dassh
        if self.path is None:
            self.write()
        self.inp = guarded("read", dassh.DASSH_Input, self.path, **kw)
        return self.inp

    def make_reactor(self, inp=None, **kw):
        import dassh
        if inp is None:
            inp = self.inp if self.inp is not None else self.read()
        kw.setdefault("calc_energy_balance", True)
        r = guarded("setup", dassh.Reactor, inp, **kw)
        return r

    def resolve_length(self, max_trial=2):
        """If core.length is None, derive it from core.n_steps and the solver's own step
        requirement (pre-pass with a 1 m core), so that every sweep has a bounded, known
        number of steps whatever the flow regime."""
        core = self.spec["core"]
        if core.get("length") is not None:
            return core["length"]
        n = core.get("n_steps", 200)
        trial = copy.deepcopy(self.spec)
        trial["core"]["length"] = 1.0
        scale_lengths(trial, 1.0)
        with Case(trial) as c0:
            c0.read()
            r0 = c0.make_reactor()
            req = float(r0.req_dz)
        L = max(min(round(n * req, 6), 4.0), 0.01)
        core["length"] = L
        scale_lengths(self.spec, L)
        return L

    def setup(self, **kw):
        self.resolve_length()
        self.write()
        self.read()
        self.reactor = self.make_reactor(**kw)
        return self.reactor


def scale_lengths(spec, L):
    """Axial positions in a spec with derived length are stored as fractions of the core
    length under keys ending in '_frac'; materialise them as metres."""
    for pf in spec.get("power", {}).get("files", []):
        for ap in pf.values():
            if "zb_frac" in ap:
                ap["zb"] = [round(f * L, 9) for f in ap["zb_frac"]]
                ap["zb"][0] = 0.0
                ap["zb"][-1] = L
    for a in spec["assemblies"].values():
        for r in (a.get("AxialRegion") or {}).values():
            if "z_lo_frac" in r:
                r["z_lo"] = round(r["z_lo_frac"] * L, 9)
            if "z_hi_frac" in r:
                r["z_hi"] = round(r["z_hi_frac"] * L, 9)
        sg = a.get("SpacerGrid")
        if sg and "axial_positions_frac" in sg:
            sg["axial_positions"] = [round(f * L, 9) for f in sg["axial_positions_frac"]]
    su = spec.get("setup", {})
    if "axial_plane_frac" in su:
        su["axial_plane"] = [round(f * L, 9) for f in su["axial_plane_frac"]]
    if "axial_mesh_size_frac" in su:
        su["axial_mesh_size"] = su["axial_mesh_size_frac"] * L


def sweep(reactor, before=None, after=None, max_steps=None):
    """Replicates Reactor.temperature_sweep step by step.

    before(i, z, dz) is called before step i (state = plane i-1, active regions as the step
    will use them); after(i, z, dz, regions) after the assemblies and the gap have been
    advanced but *before* any region change is visible to the observer: `regions` is the
    list of region objects that computed plane i.
    """
    def run():
        reactor.axial_step0()
        n = len(reactor.z)
        if max_steps is not None:
            n = min(n, max_steps + 1)
        for i in range(1, n):
            z, dz = reactor.z[i], reactor.dz[i - 1]
            regs = [a.active_region for a in reactor.assemblies]
            if before is not None:
                before(i, z, dz)
            reactor.axial_step(z, dz, i)
            if after is not None:
                after(i, z, dz, regs)
    return guarded("sweep", run)

"""Hypothesis strategies producing case specs (see build.py for the spec format).

Everything is generated constructively: dimensions are solved from drawn ratios so that the
reader's preconditions (pins fit, wire fits, clad < radius, ducts nest inside the pitch,
equal outer ducts, CTD P/D and W/D limits) hold without rejection sampling.
"""
import copy
import math

from hypothesis import strategies as st

from . import geom

FRICTION = ["NOV", "REH", "ENG", "CTD", "CTS", "UCTD"]
FLOWSPLIT = ["NOV", "SE2", "MIT", "CTD", "UCTD"]
MIXING = ["MIT", "CTD", "UCTD", "KC-BARE"]

# correlation triples that the tree can evaluate in every regime (see known finding F5);
# generators for sweep properties draw from SAFE unless told otherwise.
BUILTIN_COOLANTS = ["sodium", "sodium_se2anl", "lead", "nak", "lbe", "potassium"]
DUCT_MATS = ["ss316", "ht9", "ss304", "d9", "ht9_se2anl"]


def fl(lo, hi, **kw):
    return st.floats(min_value=lo, max_value=hi, allow_nan=False, allow_infinity=False, **kw)


def logfl(lo, hi):
    return fl(math.log(lo), math.log(hi)).map(math.exp)


def r6(x):
    return float("%.6g" % x)


@st.composite
def const_material(draw, coolant=True):
    m = {"thermal_conductivity": [r6(draw(logfl(5.0, 120.0)))],
         "heat_capacity": [r6(draw(logfl(140.0, 4500.0)))],
         "density": [r6(draw(logfl(700.0, 11000.0)))]}
    if coolant:
        m["viscosity"] = [r6(draw(logfl(1.0e-4, 3.0e-3)))]
    return m


def const_duct():
    return logfl(5.0, 60.0).map(lambda k: {"thermal_conductivity": [r6(k)], "heat_capacity": [500.0],
                                            "density": [7800.0]})


@st.composite
def correlations(draw, safe=True):
    if safe:
        # combinations that do not depend on another correlation's constants
        fam = draw(st.sampled_from(["CTD", "UCTD", "mixed"]))
        if fam == "CTD":
            return {"corr_friction": "CTD", "corr_flowsplit": "CTD",
                    "corr_mixing": draw(st.sampled_from(["CTD", "MIT"]))}
        if fam == "UCTD":
            return {"corr_friction": "UCTD", "corr_flowsplit": "UCTD",
                    "corr_mixing": draw(st.sampled_from(["UCTD", "MIT"]))}
        return {"corr_friction": draw(st.sampled_from(FRICTION)),
                "corr_flowsplit": draw(st.sampled_from(["NOV", "SE2", "MIT"])),
                "corr_mixing": draw(st.sampled_from(["MIT", "KC-BARE"]))}
    return {"corr_friction": draw(st.sampled_from(FRICTION)),
            "corr_flowsplit": draw(st.sampled_from(FLOWSPLIT)),
            "corr_mixing": draw(st.sampled_from(MIXING))}


@st.composite
def duct_stack(draw, F, n_duct):
    """duct_ftf list [in1, out1, in2, out2, ...] with outermost outer = F."""
    ftf = [F]
    cur = F
    for d in range(n_duct):
        t = F * draw(fl(0.012, 0.05))
        cur = cur - 2 * t
        ftf.append(cur)
        if d < n_duct - 1:
            b = F * draw(fl(0.008, 0.04))
            cur = cur - 2 * b
            ftf.append(cur)
    ftf = [round(x, 9) for x in ftf]
    return sorted(ftf)


@st.composite
def bundle_type(draw, F, rings=(2, 6), ducts=(1, 2), bare=False, safe_corr=True,
                wire_dir=None, htc=False):
    n_ring = draw(st.integers(rings[0], rings[1]))
    n_duct = draw(st.integers(ducts[0], ducts[1]))
    ftf = draw(duct_stack(F, n_duct))
    p2d = draw(fl(1.03, 1.42))
    if bare and draw(st.booleans()):
        wf = 0.0
    else:
        wf = draw(fl(0.35, 0.98))
    cf = draw(fl(0.0, 0.25))
    b = geom.solve_bundle(ftf[0], n_ring, p2d, wf, cf)
    D, P, Dw = b["D"], b["P"], b["Dw"]
    h2d = draw(fl(8.0, 50.0))
    H = h2d * D if Dw > 0 else 0.0
    a = {"num_rings": n_ring,
         "pin_pitch": r9(P), "pin_diameter": r9(D),
         "clad_thickness": r9(D * draw(fl(0.03, 0.2))),
         "wire_pitch": r9(H), "wire_diameter": r9(Dw),
         "wire_direction": wire_dir or draw(st.sampled_from(["clockwise", "counterclockwise"])),
         "duct_ftf": ftf, "duct_material": "ss316"}
    a.update(draw(correlations(safe_corr)))
    if Dw == 0.0:
        # bare rods: only the Cheng-Todreas family declares itself applicable (others are rejected at set-up)
        fam = draw(st.sampled_from(["CTD", "UCTD"]))
        a["corr_friction"] = fam
        a["corr_flowsplit"] = fam
        a["corr_mixing"] = draw(st.sampled_from([fam, "KC-BARE"]))
    if n_duct > 1:
        a["bypass_gap_flow_fraction"] = draw(st.sampled_from([0.0]) | fl(0.01, 0.3))
    if htc and draw(st.booleans()):
        a["htc_params_duct"] = [r6(draw(fl(0.015, 0.03))), 0.8, r6(draw(fl(0.3, 0.9))), r6(draw(fl(4.0, 8.0)))]
    if draw(st.booleans()):
        a["shape_factor"] = r6(draw(fl(1.0, 1.6)))
    meta = {"n_ring": n_ring, "n_duct": n_duct, "P": a["pin_pitch"], "D": a["pin_diameter"],
            "Dw": a["wire_diameter"], "H": a["wire_pitch"], "inner_ftf": ftf[0], "p2d": p2d}
    return a, meta


def r9(x):
    return round(x, 9)


def n_items(meta):
    n_pin, n_int, n_edge, n_corner = geom.counts(meta["n_ring"])
    return {"pins": n_pin, "cool": n_int + n_edge + n_corner,
            "duct": (n_edge + n_corner) * meta["n_duct"]}


@st.composite
def power_component(draw, n, n_cells, max_order, scale, allow_zero_cell=True):
    """One component (pins / duct / cool) of one assembly: non-negative by construction."""
    order = draw(st.integers(0, max_order))
    amp = [r6(draw(fl(0.0, 0.6)))] + [r6(draw(fl(0.0, 0.4))) for _ in range(order)]
    freq = [r6(draw(fl(0.1, 3.0))) for _ in range(order + 1)]
    phase = [r6(draw(fl(0.0, 6.28))) for _ in range(order + 1)]
    base = []
    for c in range(n_cells):
        if allow_zero_cell and n_cells > 1 and draw(st.integers(0, 5)) == 0:
            base.append([0.0] * (order + 1))
            continue
        a0 = scale * draw(fl(0.2, 1.0))
        # sum_k |a_k| (1+amp_k) 2^-k <= r * a0 (1-amp_0), r <= 0.95
        room = 0.95 * a0 * (1.0 - amp[0])
        fr = [draw(fl(-1.0, 1.0)) for _ in range(order)]
        tot = sum(abs(f) for f in fr) or 1.0
        use = draw(fl(0.0, 1.0))
        co = [r6(a0)]
        for k in range(1, order + 1):
            ak = fr[k - 1] / max(tot, 1.0) * use * room * (2.0 ** k) / (1.0 + amp[k])
            co.append(r6(ak * 0.999))
        base.append(co)
    return {"n": n, "base": base, "amp": amp, "freq": freq, "phase": phase}


@st.composite
def asm_power(draw, meta, zb_frac, scale, comps=None, max_order=3):
    ni = n_items(meta)
    if comps is None:
        comps = draw(st.sampled_from([("pins",), ("pins", "duct", "cool"), ("pins", "cool"),
                                      ("pins", "duct"), ("duct",), ("cool",), ("duct", "cool")]))
    ap = {"zb_frac": list(zb_frac)}
    share = {"pins": 0.95, "duct": 0.03, "cool": 0.02}
    tot = sum(share[c] for c in comps)
    order = draw(st.integers(0, max_order))
    for c in comps:
        comp = draw(power_component(ni[c], len(zb_frac) - 1, order, scale * share[c] / tot / ni[c]))
        # all components of one assembly must have the same number of terms in the CSV
        for row in comp["base"]:
            row += [0.0] * (order + 1 - len(row))
        ap[c] = comp
    return ap


@st.composite
def axial_cells(draw, max_cells=4):
    n = draw(st.integers(1, max_cells))
    cuts = sorted(draw(st.lists(fl(0.05, 0.95), min_size=n - 1, max_size=n - 1, unique=True)))
    zb = [0.0]
    for c in cuts:
        c = round(c, 4)
        if c - zb[-1] > 0.02:
            zb.append(c)
    if 1.0 - zb[-1] < 0.02:
        zb.pop()
    zb.append(1.0)
    return zb


def reynolds(regimes=("lam", "tra", "tur")):
    parts = []
    if "low" in regimes:
        parts.append(logfl(20.0, 300.0))
    if "lam" in regimes:
        parts.append(logfl(150.0, 900.0))
    if "tra" in regimes:
        parts.append(logfl(900.0, 1.5e4))
    if "tur" in regimes:
        parts.append(logfl(1.5e4, 2.0e5))
    return st.one_of(*parts)


@st.composite
def setup_section(draw, ebal=True, conv_approx=False, tol=False):
    su = {"calc_energy_balance": ebal}
    if conv_approx and draw(st.booleans()):
        su["conv_approx"] = True
        su["conv_approx_dz_cutoff"] = r6(draw(logfl(1e-5, 0.05)))
    if tol and draw(st.booleans()):
        su["param_update_tol"] = r6(draw(logfl(1e-4, 0.2)))
    return su


@st.composite
def axial_regions(draw, max_regions=2):
    """0..2 unrodded regions below / above the bundle (fractions of the core length)."""
    n = draw(st.integers(0, max_regions))
    regs = {}
    lo_top = 0.0
    hi_bot = 1.0
    if n >= 1:
        where = draw(st.sampled_from(["lower", "upper"])) if n == 1 else "both"
    else:
        where = None

    def one():
        r = {"model": draw(st.sampled_from(["simple", "6node"])),
             "vf_coolant": r6(draw(fl(0.15, 0.9)))}
        if draw(st.booleans()):
            r["hydraulic_diameter"] = r6(draw(logfl(0.002, 0.05)))
        if draw(st.booleans()):
            r["epsilon"] = r6(draw(logfl(1e-7, 1e-4)))
        if draw(st.booleans()):
            r["convection_factor"] = r6(draw(fl(0.1, 1.0)))
        return r
    if where in ("lower", "both"):
        lo_top = round(draw(fl(0.08, 0.4)), 3)
        r = one()
        r["z_lo_frac"], r["z_hi_frac"] = 0.0, lo_top
        regs["lower"] = r
    if where in ("upper", "both"):
        hi_bot = round(draw(fl(0.6, 0.92)), 3)
        r = one()
        r["z_lo_frac"], r["z_hi_frac"] = hi_bot, 1.0
        regs["upper"] = r
    return regs


@st.composite
def single_assembly(draw, rings=(2, 5), ducts=(1, 2), coolant="const", regimes=("lam", "tra", "tur"),
                    gap_model=None, n_steps=(30, 200), conv_approx=False, tol=False, safe_corr=True,
                    max_cells=3, comps=None, dT=(5.0, 250.0), bare=False, duct_const=True,
                    regions=False, lowfi=False):
    """One assembly in a one-position core.  gap_model None -> drawn from none/flow."""
    F = round(draw(fl(0.03, 0.16)), 6)
    a, meta = draw(bundle_type(F, rings, ducts, bare=bare, safe_corr=safe_corr))
    if regions and draw(st.booleans()):
        regs = draw(axial_regions())
        if regs:
            a["AxialRegion"] = regs
    if lowfi and draw(st.integers(0, 3)) == 0:
        a["use_low_fidelity_model"] = True
        a["low_fidelity_model"] = draw(st.sampled_from(["simple", "6node"]))
        a["convection_factor"] = draw(st.sampled_from(["calculate"]) | fl(0.1, 1.0).map(r6))
    spec = {"setup": draw(setup_section(conv_approx=conv_approx, tol=tol)), "materials": {}}
    if coolant == "const":
        spec["materials"]["cool_c"] = draw(const_material())
        cname = "cool_c"
        mu = spec["materials"]["cool_c"]["viscosity"][0]
        cp = spec["materials"]["cool_c"]["heat_capacity"][0]
    else:
        cname = draw(st.sampled_from(coolant)) if isinstance(coolant, (list, tuple)) else coolant
        mu, cp = 2.6e-4, 1270.0
        if cname in ("lead", "lbe"):
            mu, cp = 1.8e-3, 146.0
    if duct_const:
        spec["materials"]["duct_c"] = draw(const_duct())
        a["duct_material"] = "duct_c"
    else:
        a["duct_material"] = draw(st.sampled_from(DUCT_MATS))
    Re = draw(reynolds(regimes))
    fr = geom.flow_for_reynolds(Re, mu, meta["n_ring"], meta["P"], meta["D"], meta["Dw"], meta["H"],
                                meta["inner_ftf"])
    byp = a.get("bypass_gap_flow_fraction", 0.0) if meta["n_duct"] > 1 else 0.0
    fr = r6(fr / (1.0 - byp))
    gm = gap_model if gap_model is not None else draw(st.sampled_from(["none", "flow", "flow"]))
    spec["core"] = {"coolant_inlet_temp": r6(draw(fl(500.0, 700.0))), "coolant_material": cname,
                    "length": None, "n_steps": draw(st.integers(*n_steps)),
                    "assembly_pitch": round(F + draw(fl(0.001, 0.008)), 6),
                    "gap_model": gm}
    if gm != "none":
        spec["core"]["bypass_fraction"] = r6(draw(logfl(0.005, 0.2)))
    spec["assemblies"] = {"A": a}
    spec["assignment"] = [["A", 1, 1, 1, {"FLOWRATE": fr}]]
    zb = draw(axial_cells(max_cells))
    dT_ = draw(fl(*dT))
    P = fr * cp * dT_
    ap = draw(asm_power(meta, zb, P, comps=comps))
    spec["power"] = {"total_power": r6(P), "files": [{"1": ap}]}
    spec["_meta"] = {"A": meta, "Re": Re}
    return spec


# ----------------------------------------------------------------------------------------------
# multi-assembly cores
def pos_to_ring(idx):
    """0-based position index -> (ring (1-based), position in ring (1-based))."""
    if idx == 0:
        return 1, 1
    r = 2
    while 3 * r * (r - 1) < idx:
        r += 1
    return r, idx - 3 * (r - 1) * (r - 2)


def n_positions(n_ring):
    return 3 * n_ring * (n_ring - 1) + 1


@st.composite
def core_spec(draw, core_rings=(1, 2), n_types=(1, 3), rings=(2, 4), ducts=(1, 2), coolant="const",
              gap_models=("flow",), regimes=("lam", "tra", "tur"), n_steps=(30, 120), allow_empty=True,
              lowfi=True, regions=False, zero_power=False, dT=(5.0, 200.0), duct_const=True,
              full=False, conv_approx=False, max_cells=2, comps=None, byp_frac=(0.005, 0.2),
              bc_kinds=("FLOWRATE",), twins=False):
    """A core of 1, 7 or 19 positions with 1-3 assembly types, empty positions and periphery.
    twins: a position may repeat type, flow rate and power file of an earlier position (symmetric loadings)."""
    F = round(draw(fl(0.03, 0.16)), 6)
    cr = draw(st.integers(*core_rings))
    npos = n_positions(cr)
    spec = {"setup": draw(setup_section(conv_approx=conv_approx)), "materials": {}}
    if coolant == "const":
        spec["materials"]["cool_c"] = draw(const_material())
        cname = "cool_c"
        mu = spec["materials"]["cool_c"]["viscosity"][0]
        cp = spec["materials"]["cool_c"]["heat_capacity"][0]
    else:
        cname = draw(st.sampled_from(coolant)) if isinstance(coolant, (list, tuple)) else coolant
        mu, cp = 2.6e-4, 1270.0
        if cname in ("lead", "lbe"):
            mu, cp = 1.8e-3, 146.0
    if duct_const:
        spec["materials"]["duct_c"] = draw(const_duct())
    nt = draw(st.integers(*n_types))
    types, metas = {}, {}
    for t in range(nt):
        a, meta = draw(bundle_type(F, rings, ducts))
        a["duct_material"] = "duct_c" if duct_const else draw(st.sampled_from(DUCT_MATS))
        if lowfi and draw(st.integers(0, 3)) == 0:
            a["use_low_fidelity_model"] = True
            a["low_fidelity_model"] = draw(st.sampled_from(["simple", "6node"]))
            a["convection_factor"] = draw(st.sampled_from(["calculate"]) | fl(0.1, 1.0).map(r6))
            meta["lowfi"] = True
        if regions and draw(st.booleans()):
            regs = draw(axial_regions())
            if regs:
                a["AxialRegion"] = regs
        types["T%d" % t] = a
        metas["T%d" % t] = meta
    # positions: the outermost ring must hold at least one assembly (it defines the core size)
    if full or not allow_empty or npos == 1:
        filled = list(range(npos))
    else:
        keep = draw(st.lists(st.booleans(), min_size=npos, max_size=npos))
        filled = [i for i in range(npos) if keep[i]]
        outer0 = n_positions(cr - 1) if cr > 1 else 0
        if not any(i >= outer0 for i in filled):
            filled.append(outer0 + draw(st.integers(0, npos - outer0 - 1)))
        filled = sorted(set(filled))
    gm = draw(st.sampled_from(list(gap_models)))
    spec["core"] = {"coolant_inlet_temp": r6(draw(fl(500.0, 700.0))), "coolant_material": cname,
                    "length": None, "n_steps": draw(st.integers(*n_steps)),
                    "assembly_pitch": round(F + draw(fl(0.001, 0.008)), 6), "gap_model": gm}
    if gm != "none":
        spec["core"]["bypass_fraction"] = r6(draw(logfl(*byp_frac)))
    spec["assemblies"] = types
    assignment, pfile, posmeta = [], {}, []
    zb_common = draw(axial_cells(max_cells))
    Ptot = 0.0
    common_dT = r6(draw(fl(max(dT[0], 20.0), max(dT[1], 30.0))))
    for idx in filled:
        if twins and posmeta and draw(st.booleans()):
            src = posmeta[draw(st.integers(0, len(posmeta) - 1))]
            ring, pos = pos_to_ring(idx)
            srow = [r_ for r_ in assignment if pos_to_ring(src["idx"]) == (r_[1], r_[2])][0]
            bc_ = dict(srow[4])
            near = "FLOWRATE" in bc_ and draw(st.integers(0, 2)) == 0
            if near:
                # near twin: the same assembly with a flow rate that differs in the fifth or sixth significant digit
                bc_["FLOWRATE"] = r6(bc_["FLOWRATE"] * (1.0 + draw(st.sampled_from([1e-5, -1e-5, 3e-5, 1e-4]))))
            assignment.append([src["type"], ring, pos, pos, bc_])
            pfile[str(idx + 1)] = copy.deepcopy(pfile[str(src["idx"] + 1)])
            Ptot += src["P"]
            posmeta.append({"idx": idx, "type": src["type"], "Re": src["Re"], "P": src["P"], "flow": bc_.get("FLOWRATE", src["flow"]),
                            "twin_of": src["idx"], "near_twin": bool(near)})
            continue
        tname = "T%d" % draw(st.integers(0, nt - 1))
        meta = metas[tname]
        a = types[tname]
        Re = draw(reynolds(regimes))
        fr = geom.flow_for_reynolds(Re, mu, meta["n_ring"], meta["P"], meta["D"], meta["Dw"], meta["H"],
                                    meta["inner_ftf"])
        byp = a.get("bypass_gap_flow_fraction", 0.05) if meta["n_duct"] > 1 else 0.0
        fr = r6(fr / (1.0 - byp))
        ring, pos = pos_to_ring(idx)
        bc = draw(st.sampled_from(list(bc_kinds)))
        if zero_power or bc == "FLOWRATE":
            assignment.append([tname, ring, pos, pos, {"FLOWRATE": fr}])
            P = 0.0 if zero_power else fr * cp * draw(fl(*dT))
        else:
            # temperature boundary condition shared by the whole core (several assemblies of one type then
            # have the same estimated outlet temperature but different power and flow)
            if bc == "OUTLET_TEMP":
                assignment.append([tname, ring, pos, pos,
                                   {"OUTLET_TEMP": r6(spec["core"]["coolant_inlet_temp"] + common_dT)}])
            else:
                assignment.append([tname, ring, pos, pos, {"DELTA_TEMP": common_dT}])
            P = fr * cp * common_dT
        Ptot += P
        zb = zb_common if draw(st.booleans()) else draw(axial_cells(max_cells))
        pfile[str(idx + 1)] = draw(asm_power(meta, zb, max(P, 1e-3), comps=comps))
        posmeta.append({"idx": idx, "type": tname, "Re": Re, "P": P, "flow": fr})
    spec["assignment"] = assignment
    spec["power"] = {"total_power": r6(Ptot) if not zero_power else 0.0, "files": [pfile]}
    spec["_meta"] = {"types": metas, "pos": posmeta, "core_rings": cr}
    return spec


def merge_assignment_lines(spec):
    """Write runs of neighbouring positions of one ring that hold the same assembly type as ONE assignment line
    (`name = ring, first, last, BC`): all of them get the boundary condition of the first.  Returns the number of lines merged."""
    rows = sorted(spec["assignment"], key=lambda r: (r[1], r[2]))
    out = []
    merged = 0
    for r in rows:
        if out and out[-1][0] == r[0] and out[-1][1] == r[1] and out[-1][3] + 1 == r[2] and r[2] == r[3]:
            out[-1][3] = r[3]
            merged += 1
        else:
            out.append([r[0], r[1], r[2], r[3], dict(r[4])])
    spec["assignment"] = out
    return merged


# ----------------------------------------------------------------------------------------------
# pin models
@st.composite
def fuel_model(draw):
    n = draw(st.integers(1, 5))
    annular = draw(st.integers(0, 3)) == 0
    r0 = draw(fl(0.1, 0.4)) if annular else 0.0
    cuts = sorted(draw(st.lists(fl(r0 + 0.05, 0.95), min_size=n - 1, max_size=n - 1, unique=True)))
    rf = [round(r0, 4)]
    for c in cuts:
        c = round(c, 4)
        if c - rf[-1] > 0.03:
            rf.append(c)
    n = len(rf)
    fm = {"clad_material": draw(st.sampled_from(["ht9", "ss316", "d9"])),
          "r_frac": rf,
          "pu_frac": [r6(draw(fl(0.0, 0.3))) for _ in range(n)],
          "zr_frac": [r6(draw(fl(0.0, 0.2))) for _ in range(n)],
          "porosity": [r6(draw(fl(0.0, 0.3))) for _ in range(n)]}
    if draw(st.booleans()):
        fm["gap_thickness_frac"] = r6(draw(fl(0.01, 0.15)))      # fraction of the clad inner radius
        fm["gap_material"] = "sodium"
    if draw(st.booleans()):
        fm["htc_params_clad"] = [r6(draw(fl(0.01, 0.03))), 0.8, r6(draw(fl(0.4, 0.9))), r6(draw(fl(4.0, 8.0)))]
    return fm


@st.composite
def pin_model(draw):
    n = draw(st.integers(1, 4))
    annular = draw(st.integers(0, 3)) == 0
    r0 = draw(fl(0.1, 0.4)) if annular else 0.0
    cuts = sorted(draw(st.lists(fl(r0 + 0.05, 0.95), min_size=n - 1, max_size=n - 1, unique=True)))
    rf = [round(r0, 4)]
    for c in cuts:
        c = round(c, 4)
        if c - rf[-1] > 0.03:
            rf.append(c)
    n = len(rf)
    mats = {}
    names = []
    for i in range(n):
        nm = "pinmat%d" % i
        k0 = r6(draw(logfl(2.0, 40.0)))
        k1 = r6(draw(fl(0.0, 0.01))) if draw(st.booleans()) else None
        mats[nm] = {"thermal_conductivity": [k0] + ([k1] if k1 else []), "heat_capacity": [300.0], "density": [10000.0]}
        names.append(nm)
    pm = {"clad_material": draw(st.sampled_from(["ht9", "ss316"])), "r_frac": rf, "pin_material": names}
    if draw(st.booleans()):
        pm["gap_thickness_frac"] = r6(draw(fl(0.01, 0.15)))
        pm["gap_material"] = "sodium"
    return pm, mats


def attach_pin_model(spec, name, model, mats=None, fuel=True):
    """Put a Fuel-/PinModel section on assembly `name` (gap thickness resolved from the pin dimensions)."""
    a = spec["assemblies"][name]
    model = dict(model)
    if "gap_thickness_frac" in model:
        rin = 0.5 * a["pin_diameter"] - a["clad_thickness"]
        model["gap_thickness"] = round(model.pop("gap_thickness_frac") * rin, 9)
    a["FuelModel" if fuel else "PinModel"] = model
    if mats:
        spec["materials"].update(mats)

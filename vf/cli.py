import argparse
import os
import sys


def main():
    ap = argparse.ArgumentParser()
    ap.add_argument("pid")
    ap.add_argument("--tier", default=os.environ.get("VERIF_TIER", "quick"), choices=["quick", "thorough"])
    ap.add_argument("--replay")
    ap.add_argument("--part")
    a = ap.parse_args()
    try:
        seed = int(os.environ.get("VERIF_SEED", "1"))
    except ValueError:
        seed = 1
    from . import runner
    try:
        if a.replay:
            rc = runner.replay(a.pid, a.replay)
        else:
            rc = runner.run_check(a.pid, a.tier, seed, a.part)
    except SystemExit:
        raise
    except BaseException:  # noqa
        import traceback
        print("HARNESS-ERROR\n" + traceback.format_exc())
        rc = 2
    sys.stdout.flush()
    os._exit(rc)


if __name__ == "__main__":
    main()

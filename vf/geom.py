"""Independent bundle geometry (own formulas, not imported from dassh).

Used (a) by the generator to turn drawn ratios into admissible dimensions and flow rates
and (b) by the C08 oracle as the closed-form reference for the area tiling.
"""
import math

SQ3 = math.sqrt(3.0)


def solve_bundle(inner_ftf, n_ring, p2d, wf, cf):
    """Pin diameter D such that sqrt3 (n-1) P + D + 2 Dw + c = inner_ftf with
    P = p2d D, Dw = wf (P - D), c = cf D.  Returns dict of dimensions."""
    denom = SQ3 * (n_ring - 1) * p2d + 1.0 + 2.0 * wf * (p2d - 1.0) + cf
    D = (inner_ftf - 4.0e-8) / denom   # margin for the 9-digit rounding of the written values
    P = p2d * D
    Dw = wf * (P - D)
    return {"D": D, "P": P, "Dw": Dw, "clearance": cf * D}


def counts(n_ring):
    n_pin = 3 * n_ring * (n_ring - 1) + 1
    n_int = 6 * (n_ring - 1) ** 2
    n_edge = 6 * (n_ring - 1)
    n_corner = 6
    return n_pin, n_int, n_edge, n_corner


def hex_area(ftf):
    return 0.5 * SQ3 * ftf * ftf


def wire_cos(D, Dw, H):
    if Dw == 0.0:
        return 1.0
    return H / math.sqrt(H * H + (math.pi * (D + Dw)) ** 2)


def bundle_area_wp(n_ring, P, D, Dw, H, inner_ftf):
    """Flow area and wetted perimeter of the wire-wrapped bundle from first principles:
    hexagon minus pins minus wires (wire cross-section seen in the flow plane is an
    ellipse of area pi Dw^2 / 4 / cos(theta))."""
    n_pin = counts(n_ring)[0]
    c = wire_cos(D, Dw, H)
    area = hex_area(inner_ftf) - n_pin * math.pi / 4.0 * (D * D + Dw * Dw / c)
    wp = (6.0 / SQ3) * inner_ftf + n_pin * math.pi * (D + Dw / c)
    return area, wp


def flow_for_reynolds(Re, mu, n_ring, P, D, Dw, H, inner_ftf):
    area, wp = bundle_area_wp(n_ring, P, D, Dw, H, inner_ftf)
    de = 4.0 * area / wp
    return Re * mu * area / de


def reynolds_bounds(p2d):
    """Cheng-Todreas laminar / turbulent transition Reynolds numbers."""
    return 10 ** (1.7 * (p2d - 1.0)) * 300.0, 10 ** (0.7 * (p2d - 1.0)) * 1.0e4

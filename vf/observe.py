"""Read-only observers of the solver state (public attributes only) used by several oracles."""
import numpy as np


def streams(reg):
    """Coolant streams of a region: list of (name, mdot array [kg/s], temperature array view).

    A stagnant bypass carries no enthalpy flow and is not a stream.
    """
    out = []
    if reg.is_rodded:
        out.append(("int", np.array(reg.sc_mfr, dtype=float), reg.temp["coolant_int"]))
        if reg.n_bypass > 0 and float(np.sum(reg.byp_flow_rate)) > 0.0:
            for b in range(reg.n_bypass):
                m = reg.byp_flow_rate[b] * reg.area["coolant_byp"][b] / reg.total_area["coolant_byp"][b]
                out.append(("byp%d" % b, np.array(m, dtype=float), reg.temp["coolant_byp"][b]))
    elif getattr(reg, "model", None) == "6node":
        out.append(("int", np.ones(6) * reg._scfr, reg.temp["coolant_int"]))
    else:
        out.append(("int", np.array([reg.flow_rate], dtype=float), reg.temp["coolant_int"]))
    return out


def snapshot(reg):
    """Copies of everything the energy balance needs, taken before a step."""
    s = {"T": [(n, m.copy(), t.copy()) for n, m, t in streams(reg)],
         "ebal_duct": reg.ebal["duct"].copy(),
         "cp": float(reg.coolant.heat_capacity)}
    if "duct_byp_in" in reg.ebal:
        s["ebal_in"] = reg.ebal["duct_byp_in"].copy()
        s["ebal_out"] = reg.ebal["duct_byp_out"].copy()
    return s


def mixed_mean(reg):
    """Mass-flow weighted mean temperature over all flowing streams (own computation)."""
    num = den = 0.0
    for _, m, t in streams(reg):
        num += float(np.dot(m, t))
        den += float(np.sum(m))
    return num / den


def stream_means(reg):
    return [(n, float(np.sum(m)), float(np.dot(m, t) / np.sum(m))) for n, m, t in streams(reg)]


def total_power_delivered(asm):
    return dict(asm._power_delivered)


_GL_X, _GL_W = np.polynomial.legendre.leggauss(12)


def enthalpy(mat, t0, t1):
    """int_{t0}^{t1} cp(T) dT with the material's own cp(T) correlation (12-point Gauss-Legendre
    on 8 sub-intervals; exact to round-off for the polynomial/tabulated correlations in dassh)."""
    f = mat._data["heat_capacity"]
    if t1 == t0:
        return 0.0
    tot = 0.0
    edges = np.linspace(t0, t1, 9)
    for a, b in zip(edges[:-1], edges[1:]):
        x = 0.5 * (b - a) * _GL_X + 0.5 * (a + b)
        tot += 0.5 * (b - a) * float(np.sum(_GL_W * np.array([f(v) for v in x])))
    return tot

"""Own hexagonal-lattice geometry: position coordinates, rotations, gap cell locations."""
import math

import numpy as np

from . import gen


def lattice_xy(idx, pitch):
    """Coordinates of core position idx (0-based) in the frame DASSH uses: ring r starts on the +x axis and is
    numbered towards +y first (the first neighbour side of the centre then points to 60 degrees and the sides
    proceed clockwise)."""
    if idx == 0:
        return (0.0, 0.0)
    ring, pos = gen.pos_to_ring(idx)
    r = ring - 1
    side, k = divmod(pos - 1, r)
    a0, a1 = math.radians(60.0 * side), math.radians(60.0 * (side + 1))
    cx, cy = r * math.cos(a0), r * math.sin(a0)
    nx, ny = r * math.cos(a1), r * math.sin(a1)
    return ((cx + (nx - cx) * k / r) * pitch, (cy + (ny - cy) * k / r) * pitch)


def rot(xy, angle):
    c, s = math.cos(angle), math.sin(angle)
    xy = np.asarray(xy, float)
    return np.column_stack((c * xy[:, 0] - s * xy[:, 1], s * xy[:, 0] + c * xy[:, 1]))


def mirror_x(xy):
    xy = np.asarray(xy, float)
    return np.column_stack((-xy[:, 0], xy[:, 1]))


def match(xy_from, xy_to, tol):
    """perm with xy_to[perm[i]] == xy_from[i] within tol; raises ValueError if it is not a bijection."""
    xy_from = np.asarray(xy_from, float)
    xy_to = np.asarray(xy_to, float)
    perm = np.full(len(xy_from), -1, dtype=int)
    for i, p in enumerate(xy_from):
        d = np.hypot(xy_to[:, 0] - p[0], xy_to[:, 1] - p[1])
        j = int(np.argmin(d))
        if d[j] > tol:
            raise ValueError("no partner for point %d (nearest %.3e away)" % (i, d[j]))
        perm[i] = j
    if len(set(perm.tolist())) != len(perm):
        raise ValueError("permutation is not a bijection")
    return perm


def position_perm(n_rings, transform, pitch=1.0):
    """Map of core positions under a point transform (function xy-array -> xy-array)."""
    n = gen.n_positions(n_rings)
    xy = np.array([lattice_xy(i, pitch) for i in range(n)])
    return match(transform(xy), xy, 1e-6 * pitch)


def side_normal(s):
    """Outward normal angle of hex side s (clockwise from 60 degrees), shared by assemblies and core."""
    return math.pi / 3.0 - s * math.pi / 3.0


def gap_cell_locations(core, filled, pitch):
    """xy of every gap cell (1-based id -> xy): edge cells at the mid-point of their stretch of the gap centre line,
    corner cells at the vertex of the pitch hexagon.  Uses the cell boundaries around the first assembly that sees
    the cell."""
    S = core.duct_oftf / math.sqrt(3.0)
    perim = 6.0 * S
    xy = np.array([lattice_xy(i, pitch) for i in filled])
    scps = core._geom_params["sc_per_side"]
    loc = {}
    for a in range(core.n_asm):
        ids = core._asm_sc_adj[a][core._asm_sc_adj[a] > 0]
        xb = core._asm_sc_xbnds[a]
        xb = xb[xb > 0]
        full = np.concatenate(([0.0], xb, [perim]))
        pos = 0
        for s in range(6):
            ne = int(scps[a][s])
            nrm, nxt = side_normal(s), side_normal(s + 1)
            nvec = np.array([math.cos(nrm), math.sin(nrm)])
            n2 = np.array([math.cos(nxt), math.sin(nxt)])
            tvec = (n2 - nvec) / np.hypot(*(n2 - nvec))
            c = xy[a] + 0.5 * pitch * nvec
            start = 1 + sum(int(x) + 1 for x in scps[a][:s])
            for k in range(ne):
                cid = int(ids[pos + k])
                mid = 0.5 * (full[start + k] + full[start + k + 1])
                loc.setdefault(cid, c + (mid - (s + 0.5) * S) * tvec)
            cid = int(ids[pos + ne])
            vtx = xy[a] + (0.5 * pitch / math.cos(math.pi / 6.0)) * (nvec + n2) / np.hypot(*(nvec + n2))
            loc.setdefault(cid, vtx)
            pos += ne + 1
    return loc

#!/bin/bash
# Offline, idempotent: installs the harness' own dependencies into /verif/.deps (git-ignored).
cd "$(dirname "$0")"
if [ -d .deps/hypothesis ] && [ -d .deps/jsonschema ]; then echo "deps present"; exit 0; fi
PIP_NO_INDEX=1 /venv/bin/pip install --quiet --no-index --find-links /opt/veriftools/wheels \
    --target .deps hypothesis jsonschema atheris || exit 1
echo "deps installed"

#!/venv/bin/python
"""tools/mkreport.py: markdown fragments for DESIGN.md from known_findings.json and seeded/*/meta.json."""
import glob
import json
import os
import re

V = os.path.dirname(os.path.dirname(os.path.abspath(__file__)))


def findings():
    d = json.load(open(os.path.join(V, "known_findings.json")))
    out = ["| property | commit | what failed before the repair |", "|---|---|---|"]
    for line in d["fixed"]:
        m = re.match(r"fixed: property=(\S+) (\S+) (.*)", line)
        out.append("| %s | `%s` | %s |" % (m.group(1), m.group(2), m.group(3).replace("|", "/")))
    out.append("")
    out.append("| id | property | signature | where | what |")
    out.append("|---|---|---|---|---|")
    for f in d["findings"]:
        out.append("| %s | %s | `%s` | %s | %s |" % (f["id"], f["property"], f["signature"], f["where"], f["what"].replace("|", "/")))
    return "\n".join(out)


def mutants():
    out = ["| change | what it breaks (one line) | verified on HEAD | detected by (quick tier) | signatures |", "|---|---|---|---|---|"]
    for d in sorted(glob.glob(os.path.join(V, "seeded", "*"))):
        mp = os.path.join(d, "meta.json")
        if not os.path.exists(mp):
            continue
        m = json.load(open(mp))
        name = os.path.basename(d)
        ver = m.get("verified", {})
        vtxt = "yes" if ver.get("ok") else ("patch stale" if ver.get("patch_applies") is False else
                                            ("demo passes with the change (equivalent on HEAD)" if ver.get("demo_modified_rc") == 0 else "no"))
        det = []
        sigs = []
        for pid, c in sorted((m.get("checks") or {}).items()):
            if c.get("detected"):
                det.append(pid)
                sigs += [s.replace("signature: ", "") for s in c.get("signatures", [])[:3]]
            elif "error" in c:
                det.append("%s: %s" % (pid, c["error"]))
        summ = m.get("summary", "").split(". ")[0][:160].replace("|", "/")
        missed = "**missed**"
        if "equivalent on HEAD" in (m.get("note_by_verifier") or ""):
            missed = "not detectable: equivalent on HEAD (see note_by_verifier in meta.json)"
        out.append("| %s | %s | %s | %s | %s |" % (name, summ, vtxt, ", ".join(det) or missed, ", ".join("`%s`" % s for s in sigs[:3])))
    return "\n".join(out)


if __name__ == "__main__":
    import sys
    what = sys.argv[1] if len(sys.argv) > 1 else "all"
    if what == "fill":
        import re as _re
        dp = os.path.join(V, "DESIGN.md")
        t = open(dp).read()
        for tag, fn in (("FINDINGS", findings), ("MUTANTS", mutants)):
            t = _re.sub(r"<!-- %s:BEGIN -->.*?<!-- %s:END -->" % (tag, tag),
                        lambda m: "<!-- %s:BEGIN -->\n%s\n<!-- %s:END -->" % (tag, fn(), tag), t, flags=_re.S)
        open(dp, "w").write(t)
        sys.exit(0)
    if what in ("findings", "all"):
        print(findings())
    if what in ("mutants", "all"):
        print()
        print(mutants())

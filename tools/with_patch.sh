#!/bin/bash
# tools/with_patch.sh [-R] PATCH -- command...   : apply PATCH to /repo, run the command, always restore /repo.
REV=""
if [ "$1" = "-R" ]; then REV="-R"; shift; fi
PATCH="$1"; shift; shift
if ! git -C /repo diff --quiet; then echo "refusing: /repo has uncommitted changes"; exit 3; fi
git -C /repo apply $REV "$PATCH" || { echo "patch does not apply"; exit 3; }
"$@"; rc=$?
git -C /repo checkout -- . 
exit $rc

#!/venv/bin/python
"""Regenerates MANIFEST.json from the property modules (single source of truth: vf/props/*.py + this table)."""
import json, os, sys
HERE = os.path.dirname(os.path.dirname(os.path.abspath(__file__)))
sys.path.insert(0, HERE)
import importlib
props = [json.loads(l) for l in open(os.path.join(HERE, "properties.jsonl"))]
checks, na = [], []
for p in props:
    pid = p["id"]
    path = os.path.join(HERE, "vf", "props", pid + ".py")
    if not os.path.exists(path):
        na.append({"property_id": pid, "reason": "check not built yet (planned, see DESIGN.md section 3); not claimed"})
        continue
    src = open(path).read()
    ns = {}
    # read the static metadata without importing dassh
    for key in ("TECHNIQUE", "LEVEL_TEXT", "LEVEL_NOTE", "DESIGN_REF"):
        ns[key] = None
    import ast
    tree = ast.parse(src)
    for node in tree.body:
        if isinstance(node, ast.Assign) and len(node.targets) == 1 and isinstance(node.targets[0], ast.Name):
            if node.targets[0].id in ns:
                ns[node.targets[0].id] = ast.literal_eval(node.value)
    checks.append({
        "property_id": pid,
        "quick_cmd": "./check %s --tier quick" % pid,
        "thorough_cmd": "./check %s --tier thorough" % pid,
        "evidence_file": "/verif/evidence/%s.json" % pid,
        "replay_cmd_template": "./check %s --replay {path}" % pid,
        "engine": "vf",
        "level_claimed": {"category": "exploration",
                          "text": ns["LEVEL_TEXT"] or "generated-input search against explicit oracles; holds on everything explored, no guarantee beyond it",
                          "design_ref": ns["DESIGN_REF"] or ("DESIGN.md section 3, " + pid)},
        "level_note": ns["LEVEL_NOTE"] or "trusts NumPy arithmetic, the harness' own reference formulas (vf/geom.py, vf/build.py) and Hypothesis' generators; evidence is per-run counts",
        "technique": ns["TECHNIQUE"] or "property-based testing (Hypothesis) with explicit oracle",
    })
man = {
    "version": 1,
    "setup_cmd": "./setup.sh",
    "hooks": {"guard": "DASSH_VERIF", "enable": "no source hooks are needed: every check imports dassh from /repo's working tree (sys.path) and observes public attributes; DASSH_VERIF=1 is exported by ./check but nothing in dassh reads it",
              "baseline_off_cmd": "/venv/bin/python tools/baseline.py", "source_commits": [], "add_only": True},
    "engines": [{"name": "vf", "path": "/verif/vf", "serves_properties": [c["property_id"] for c in checks],
                 "kind_free_text": "Hypothesis-driven property-based testing framework: JSON case specs -> generated DASSH input + power CSV -> real Reactor driven step by step; 16-way sharded; enumerates finite sub-spaces exhaustively"}],
    "checks": checks,
    "not_applicable": na,
    "notes": "Checks never copy /repo: dassh is imported from the working tree at every invocation. known_findings.json lists genuine defects (open ones are printed as KNOWN-FINDING and suppressed; fixed ones suppress nothing).",
}
json.dump(man, open(os.path.join(HERE, "MANIFEST.json"), "w"), indent=1)
print("checks:", len(checks), "not_applicable:", len(na))

#!/bin/bash
# usage: thor.sh SEED ids...
SEED=$1; shift
./setup.sh
mkdir -p tp_ev tp_rp
for p in "$@"; do
  s=$(date +%s)
  VERIF_SEED=$SEED VERIF_EVIDENCE_DIR=$PWD/tp_ev VERIF_REPLAY_DIR=$PWD/tp_rp ./check $p --tier thorough > out_$p.txt 2>&1
  echo "$p seed=$SEED exit=$? wall=$(( $(date +%s)-s ))s"
  grep -E "VIOLATION|KNOWN-FINDING|signature:" out_$p.txt | sort | uniq -c | head -20
done

#!/venv/bin/python
"""Run the repository's pinned test suite (guard OFF) and compare with BASELINE.json.

Exit 0 iff every test in BASELINE.stable_pass passes.  Prints the extra passes too.
"""
import json, os, subprocess, sys, tempfile, xml.etree.ElementTree as ET

REPO = os.environ.get("VERIF_REPO", "/repo")
base = json.load(open("/root/.vp/BASELINE.json"))
want = set(base["stable_pass"])
fd, xml = tempfile.mkstemp(suffix=".junit.xml"); os.close(fd)
env = dict(os.environ); env.pop("DASSH_VERIF", None)
env["MPLBACKEND"] = "Agg"
cmd = ["/venv/bin/python", "-m", "pytest", "-ra", "-q", "-p", "no:cacheprovider",
       "--timeout=900", "--continue-on-collection-errors", "--junitxml=" + xml] + sys.argv[1:]
p = subprocess.run(cmd, cwd=REPO, env=env, stdout=subprocess.PIPE, stderr=subprocess.STDOUT, text=True)
passed = set()
for tc in ET.parse(xml).getroot().iter("testcase"):
    bad = any(c.tag in ("failure", "error", "skipped") for c in tc)
    if not bad:
        passed.add(tc.get("classname") + "::" + tc.get("name"))
os.unlink(xml)
missing = sorted(want - passed)
print("baseline stable_pass: %d, passed now: %d, baseline tests missing: %d, extra passes: %d"
      % (len(want), len(passed), len(missing), len(passed - want)))
for m in missing:
    print("MISSING", m)
if missing:
    print(p.stdout[-4000:])
sys.exit(1 if missing else 0)

#!/venv/bin/python
"""tools/dbg.py PID PART [N] [SEED]: run N generated cases of one part in-process, print one line each."""
import sys, os, json
sys.path.insert(0, os.path.dirname(os.path.dirname(os.path.abspath(__file__))))
from vf import env; env.setup()
from vf import runner
import hypothesis
from hypothesis import given, settings, HealthCheck, Phase
pid, pname = sys.argv[1], sys.argv[2]
n = int(sys.argv[3]) if len(sys.argv) > 3 else 10
seed = int(sys.argv[4]) if len(sys.argv) > 4 else 1
tier = os.environ.get("VERIF_TIER", "quick")
part = runner._find_part(pid, tier, pname)
i = [0]
def show(spec):
    o = runner.safe_run(part, spec)
    print(i[0], "NT" if o.nontrivial else "  ", "%.1fs" % o.wall, o.inconclusive or "", {k: (("%.3g" % v) if isinstance(v, float) else v) for k, v in o.classes.items()},
          {k: "%.3g" % v for k, v in o.metrics.items()}, o.violations, getattr(o, "harness_error", "") or "")
    if os.environ.get("DUMP") and (o.violations or o.inconclusive):
        json.dump({"property": pid, "part": pname, "spec": spec, "signature": "dbg"}, open("/tmp/dbg_%d.json" % i[0], "w"), default=str)
    i[0] += 1
if part.cases is not None:
    for s in part.cases[:n]: show(s)
else:
    @hypothesis.seed(seed)
    @settings(max_examples=n, database=None, deadline=None, phases=[Phase.generate], suppress_health_check=list(HealthCheck))
    @given(part.strategy)
    def t(spec): show(spec)
    t()

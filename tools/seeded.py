#!/venv/bin/python
"""tools/seeded.py import|verify|run  [names...]

import : copy /tmp/seeded_out/<name>/{patch.diff,demo.py,meta.json} to /verif/seeded/<name>/
verify : in a scratch worktree of /repo HEAD: demo passes unmodified, patch applies, demo fails, the 143
         baseline tests still pass with the patch; result -> meta.json["verified"]
run    : apply the patch in a scratch worktree and run ./check for the property (VERIF_REPO points at the
         worktree; evidence/replays are redirected to a temp dir); result -> meta.json["checks"]
Scratch worktrees live under /tmp and are removed afterwards.
"""
import json, os, shutil, subprocess, sys, tempfile, time
V = os.path.dirname(os.path.dirname(os.path.abspath(__file__)))
SD = os.path.join(V, "seeded")


def sh(cmd, cwd=None, env=None, timeout=3600):
    p = subprocess.run(cmd, shell=True, cwd=cwd, env=env, stdout=subprocess.PIPE, stderr=subprocess.STDOUT, text=True, timeout=timeout)
    return p.returncode, p.stdout


def names(args):
    if args:
        return args
    return sorted(d for d in os.listdir(SD) if os.path.isdir(os.path.join(SD, d)))


def wt_make():
    d = tempfile.mkdtemp(prefix="vw_", dir="/tmp")
    os.rmdir(d)
    rc, out = sh("git -C /repo worktree add -q --detach %s HEAD" % d)
    if rc:
        raise RuntimeError(out)
    return d


def wt_drop(d):
    sh("git -C /repo worktree remove --force %s" % d)
    shutil.rmtree(d, ignore_errors=True)


def do_import(ns):
    os.makedirs(SD, exist_ok=True)
    src = "/tmp/seeded_out"
    for n in ns or sorted(x for x in os.listdir(src) if os.path.isdir(os.path.join(src, x)) and os.path.exists(os.path.join(src, x, "patch.diff"))):
        dst = os.path.join(SD, n)
        os.makedirs(dst, exist_ok=True)
        for f in ("patch.diff", "demo.py", "meta.json"):
            if os.path.exists(os.path.join(src, n, f)):
                shutil.copy(os.path.join(src, n, f), os.path.join(dst, f))
        print("imported", n)


def do_verify(ns):
    for n in names(ns):
        d = os.path.join(SD, n)
        meta = json.load(open(os.path.join(d, "meta.json")))
        w = wt_make()
        try:
            res = {"at_repo_commit": sh("git -C /repo rev-parse --short HEAD")[1].strip()}
            rc0, out0 = sh("/venv/bin/python %s/demo.py" % d, cwd=w, timeout=1800)
            res["demo_unmodified_rc"] = rc0
            rca, outa = sh("git apply %s/patch.diff" % d, cwd=w)
            res["patch_applies"] = rca == 0
            if rca == 0:
                rc1, out1 = sh("/venv/bin/python %s/demo.py" % d, cwd=w, timeout=1800)
                res["demo_modified_rc"] = rc1
                rct, outt = sh("VERIF_REPO=%s /venv/bin/python %s/tools/baseline.py" % (w, V), cwd=w, timeout=3600)
                res["baseline_rc"] = rct
                res["baseline"] = outt.strip().splitlines()[0] if outt.strip() else ""
            res["ok"] = bool(res.get("patch_applies") and rc0 == 0 and res.get("demo_modified_rc", 0) != 0 and res.get("baseline_rc") == 0)
            meta["verified"] = res
            json.dump(meta, open(os.path.join(d, "meta.json"), "w"), indent=1)
            print(n, res)
        finally:
            wt_drop(w)


def do_run(ns, tier="quick", extra=None):
    for n in names(ns):
        d = os.path.join(SD, n)
        meta = json.load(open(os.path.join(d, "meta.json")))
        pid = meta.get("property", n.split("-")[0])
        w = wt_make()
        tmp = tempfile.mkdtemp(prefix="vev_", dir="/tmp")
        try:
            rca, outa = sh("git apply %s/patch.diff" % d, cwd=w)
            if rca:
                print(n, "patch does not apply to HEAD:", outa[:200])
                meta.setdefault("checks", {})[pid] = {"error": "patch does not apply"}
            else:
                for p in [pid] + list(extra or []):
                    env = dict(os.environ, VERIF_REPO=w, VERIF_EVIDENCE_DIR=tmp, VERIF_REPLAY_DIR=tmp)
                    t0 = time.time()
                    rc, out = sh("./check %s --tier %s" % (p, tier), cwd=V, env=env, timeout=7200)
                    sigs = [l.strip() for l in out.splitlines() if l.strip().startswith("signature:")]
                    meta.setdefault("checks", {})[p] = {"tier": tier, "exit": rc, "detected": rc == 1, "signatures": sorted(set(sigs))[:8],
                                                        "wall_s": round(time.time() - t0, 1),
                                                        "at_repo_commit": sh("git -C /repo rev-parse --short HEAD")[1].strip()}
                    print(n, p, "exit", rc, sorted(set(sigs))[:4])
            json.dump(meta, open(os.path.join(d, "meta.json"), "w"), indent=1)
        finally:
            wt_drop(w)
            shutil.rmtree(tmp, ignore_errors=True)


if __name__ == "__main__":
    cmd = sys.argv[1]
    args = sys.argv[2:]
    tier = "quick"
    extra = []
    if "--tier" in args:
        i = args.index("--tier"); tier = args[i + 1]; del args[i:i + 2]
    if "--also" in args:
        i = args.index("--also"); extra = args[i + 1].split(","); del args[i:i + 2]
    {"import": do_import, "verify": do_verify}.get(cmd, lambda a: do_run(a, tier, extra))(args)
